//! C24 policies the compiler accepts do not go wrong.
//!
//! Every VM execution of compiler-accepted generated code is classified by how it ended
//! (see `polkit::run::classify` for the per-variant justification of `MachineErrorType`).
//! Workloads (each has its own signature prefix so findings do not mask each other):
//!   pure-reuse      random pure-function modules that deliberately reuse names of closed scopes,
//!                   with injected FFI failures (shared with pol_sem; also compared with the
//!                   reference evaluator there)
//!   cmd             modules with facts / effects / finish functions / commands (policy, recall,
//!                   finish) / actions publishing commands / map / queries on a model-backed
//!                   MonitorIO, with injected I/O failures
//!   recursion       genuinely deep recursion (value-stack exhaustion is excepted by the statement)
//!   quirk-partial-struct   struct literals that omit fields
//!   quirk-bind-alt         match alternations mixing a binding with another variant
//!   illtyped        the typed generators above only ever produce programs the checker is meant to
//!                   accept, so a checker that accepts TOO MUCH is invisible to them. This workload
//!                   takes accepted pure / command modules and applies ONE type-breaking mutation at
//!                   the IR level (polkit::mutate): wrong-expr (a sub-expression replaced by one of
//!                   another type, plain or next to a well-typed sibling in an if / match / `or` /
//!                   block, biased towards positions typed by unification), ctor-swap (Ok<->Err,
//!                   Some(e)<->e, binding patterns), decl (return / parameter / field / fact / command
//!                   field type changed, bodies and callers untouched), arity (argument dropped or
//!                   added: function, FFI, finish-function, action, `recall` calls), var-swap (variable
//!                   of another type), global-let (global struct literal with an ill-typed / missing /
//!                   unknown field). Every function and global additionally gets a well-typed consumer
//!                   `zchk_*` that takes the value apart by its DECLARED type. Rejected mutants are
//!                   only counted; accepted ones are executed like the other workloads and must not
//!                   go wrong (signature c24:illtyped-<class>:<error>). `control` = consumers only.
//!   quirk-map-return       an early `return` inside a `map` of a fallible action called from
//!                          another action's `map` (query-iterator stack discipline)
//!   quirk-recall-arity     `recall name(..)` with too few / too many arguments
//!   quirk-bind-count       match arms that are all bindings of one variant, as many as the type has values
//!   doc (replay only)      one entry point of a hand-written policy document, to confirm a finding
use mon_polsem::{cmdrun::*, first_line, pure};
use polkit::{
    cmdgen::{self, CmdCfg},
    r#gen::{self, GenCfg},
    io::Inject,
    ir::*,
    mutate::{self, Class},
    print,
    run::{self, ErrClass},
};
use vcore::*;

use aranya_policy_vm::{ExitReason, MachineError};

#[allow(clippy::too_many_arguments)]
fn classify_end(
    mon: &mut Monitor,
    workload: &str,
    class: Option<&str>,
    exit: &Option<Result<ExitReason, MachineError>>,
    last_kind: &str,
    steps: u64,
    case_hash: u64,
    replay: &dyn Fn() -> Value,
) {
    let Some(exit) = exit else {
        mon.count("vm_step_budget_exhausted", 1);
        return;
    };
    mon.eval();
    match exit {
        Ok(r) => {
            mon.count(&format!("end_{r:?}"), 1);
            if steps >= 8 {
                mon.nontrivial(case_hash);
            }
        }
        Err(e) => match run::classify(&e.err_type) {
            ErrClass::IoOrFfi => {
                mon.count("end_io_or_ffi_error", 1);
                mon.seen("io_or_ffi_errors", run::err_name(&e.err_type));
                mon.nontrivial(case_hash);
            }
            ErrClass::StackExhaustion => mon.count("end_stack_exhaustion", 1),
            ErrClass::Harness => mon.count("harness_errors", 1),
            ErrClass::WentWrong => {
                mon.count(&format!("went_wrong_{workload}"), 1);
                // quirk workloads are dedicated to one dubious construct: the signature names the
                // workload and the error only; everywhere else the failing instruction is included
                let sig = if let Some(c) = class {
                    format!("c24:{c}")
                } else if workload.starts_with("quirk-") || workload.starts_with("illtyped-") {
                    format!("c24:{workload}:{}", run::err_name(&e.err_type))
                } else {
                    format!("c24:{workload}:{}@{last_kind}", run::err_name(&e.err_type))
                };
                mon_polsem::violation_capped(mon, &sig, json!({"case": replay(), "error": e.to_string()}));
            }
        },
    }
}

fn compile(mon: &mut Monitor, workload: &str, doc: &str, seed: u64) -> Option<aranya_policy_vm::Machine> {
    mon.count("modules_generated", 1);
    mon.count(&format!("generated_{workload}"), 1);
    match run::compile_doc(doc) {
        Ok(mc) => {
            mon.count("modules_accepted", 1);
            mon.count(&format!("accepted_{workload}"), 1);
            Some(mc)
        }
        Err(r) => {
            mon.count("modules_rejected", 1);
            mon.seen("rejection_reasons", &first_line(&format!("{r:?}")));
            if std::env::var("POLSEM_DUMP_REJECTS").is_ok() {
                eprintln!("--- REJECTED {workload} seed {seed}\n{r:?}\n{doc}");
            }
            None
        }
    }
}

/// Commands + actions + pure functions (with queries) of a generated command module.
fn run_cmd_module(mon: &mut Monitor, mseed: u64) {
    let mut mr = Rng::new(mseed);
    let m = cmdgen::gen_command_module(&mut mr, &CmdCfg { reuse_names: mseed & 1 == 1 });
    let doc = print::document(&m);
    let Some(machine) = compile(mon, "cmd", &doc, mseed) else { return };
    exec_cmd_module(mon, "cmd", &m, &doc, &machine, mseed, &json!({"workload": "cmd", "module_seed": mseed}));
    if mon.samples.len() < 2 {
        let src = print::source(&m);
        mon.sample(|| json!({"module_seed": mseed, "workload": "cmd", "source_excerpt": src.chars().take(1800).collect::<String>()}));
    }
}

/// Run every command (5 inputs, two with injected I/O failures), action (4 inputs) and pure
/// function (4 argument vectors) of an accepted command module. `ident` = replay identity.
fn exec_cmd_module(mon: &mut Monitor, workload: &str, m: &Module, doc: &str, machine: &aranya_policy_vm::Machine, mseed: u64, ident: &Value) {
    // (the substruct-to-empty-struct defect is repaired in /repo: no special input class any more)
    let class: Option<&str> = None;
    let mk_replay = |what: String, input: String| {
        let doc = doc.to_string();
        let id = ident.clone();
        move || {
            let mut id = id.clone();
            id["entry"] = json!(what);
            id["input"] = json!(input);
            id["doc"] = json!(doc);
            id
        }
    };
    for ci in 0..m.commands.len() {
        for k in 0..5u64 {
            let mut ir = Rng::new(mix2(mseed, 0xC0DE + (ci as u64) * 64 + k));
            let this: Vec<Val> = m.commands[ci].fields.iter().map(|(_, t)| cmdgen::small_val(&mut ir, m, t)).collect();
            let store = cmdgen::gen_store(&mut ir, m);
            let inject = match k {
                3 => Inject { fail_write_at: Some(ir.usize(3)), fail_query_at: None },
                4 => Inject { fail_write_at: None, fail_query_at: Some(ir.usize(3)) },
                _ => Inject::default(),
            };
            let r = run_command(machine, m, ci, &this, &store, inject);
            for kd in &r.kinds {
                mon.seen("instruction_kinds", kd);
            }
            mon.count("command_runs", 1);
            let rp = mk_replay(format!("command {}", m.commands[ci].name), format!("this={this:?} store={store:?} inject={inject:?}"));
            classify_end(mon, workload, class, &r.exit, r.last_kind, r.steps, mix2(hash_of(&m.commands[ci]), hash_of(&this)), &rp);
        }
    }
    for ai in 0..m.actions.len() {
        for k in 0..4u64 {
            let mut ir = Rng::new(mix2(mseed, 0xAC7 + (ai as u64) * 64 + k));
            let args: Vec<Val> = m.actions[ai].params.iter().map(|(_, t)| cmdgen::small_val(&mut ir, m, t)).collect();
            let store = cmdgen::gen_store(&mut ir, m);
            let inject = if k == 3 { Inject { fail_write_at: None, fail_query_at: Some(ir.usize(2)) } } else { Inject::default() };
            let r = run_action(machine, m, ai, &args, &store, inject);
            for kd in &r.kinds {
                mon.seen("instruction_kinds", kd);
            }
            mon.count("action_runs", 1);
            mon.count("commands_published", r.obs.publishes);
            let rp = mk_replay(format!("action {}", m.actions[ai].name), format!("args={args:?} store={store:?}"));
            classify_end(mon, workload, class, &r.exit, r.last_kind, r.steps, mix2(hash_of(&m.actions[ai]), hash_of(&args)), &rp);
        }
    }
    // pure functions of the module (they may query facts): run with an empty store
    for (fi, f) in m.funcs.iter().enumerate() {
        let mut ar = Rng::new(mix2(mseed, 0xA765 + fi as u64));
        for a in r#gen::gen_args(&mut ar, m, f, 4) {
            let Some(vm) = run::run_function(machine, m, &f.name, &a, true) else { continue };
            for kd in &vm.kinds {
                mon.seen("instruction_kinds", kd);
            }
            mon.count("function_runs", 1);
            let rp = mk_replay(format!("function {}", f.name), format!("args={a:?}"));
            classify_end(mon, workload, class, &Some(vm.exit), vm.last_kind, vm.steps, mix2(hash_of(&f.body), hash_of(&a)), &rp);
        }
    }
}

/// Pure modules generated with one quirk enabled; no reference (semantics undefined).
fn run_quirk_module(mon: &mut Monitor, workload: &'static str, mseed: u64) {
    let cfg = match workload {
        "quirk-partial-struct" => GenCfg { quirk_partial_struct: true, never_exprs: false, fall_off: false, ..GenCfg::default() },
        _ => GenCfg { quirk_bind_alt: true, never_exprs: false, fall_off: false, ..GenCfg::default() },
    };
    let mut mr = Rng::new(mseed);
    let m = r#gen::gen_module(&mut mr, &cfg);
    let doc = print::document(&m);
    let Some(machine) = compile(mon, workload, &doc, mseed) else { return };
    // (the substruct-to-empty-struct defect is repaired in /repo: no special input class any more)
    let class: Option<&str> = None;
    for (fi, f) in m.funcs.iter().enumerate() {
        let mut ar = Rng::new(mix2(mseed, 0xA765 + fi as u64));
        for (ai, a) in r#gen::gen_args(&mut ar, &m, f, 6).iter().enumerate() {
            let Some(vm) = run::run_function(&machine, &m, &f.name, a, true) else { continue };
            let doc = doc.clone();
            let rp = move || json!({"workload": workload, "module_seed": mseed, "function": f.name, "arg_index": ai, "args": format!("{a:?}"), "doc": doc});
            classify_end(mon, workload, class, &Some(vm.exit), vm.last_kind, vm.steps, mix2(hash_of(&f.body), hash_of(&a)), &rp);
        }
    }
}

/// Mutation schedule per base module (wrong-expr is the richest class: three draws).
const ILL_SCHEDULE: [Class; 8] =
    [Class::WrongExpr, Class::CtorSwap, Class::Decl, Class::Arity, Class::VarSwap, Class::GlobalLet, Class::WrongExpr, Class::WrongExpr];

fn illtyped_base(kind: &str, mseed: u64) -> Module {
    let mut mr = Rng::new(mseed);
    match kind {
        "cmd" => cmdgen::gen_command_module(&mut mr, &CmdCfg { reuse_names: false }),
        _ => r#gen::gen_module(&mut mr, &GenCfg::default()),
    }
}

/// One accepted base module (pure or command), `ILL_SCHEDULE` single-mutation mutants of it.
/// Rejected mutants are counted only; accepted ones are executed and classified.
fn run_illtyped(mon: &mut Monitor, kind: &'static str, mseed: u64, only: Option<u64>) {
    let base = illtyped_base(kind, mseed);
    mon.count("illtyped_bases", 1);
    if run::compile_doc(&print::document(&base)).is_err() {
        // nothing can be learnt from mutants of a module the compiler refuses anyway
        mon.count("illtyped_bases_rejected", 1);
        return;
    }
    for k in 0..=(ILL_SCHEDULE.len() as u64) {
        if only.is_some_and(|o| o != k) {
            continue;
        }
        // slot 8: the control (consumers only), for every 4th base
        let class = match ILL_SCHEDULE.get(k as usize) {
            Some(c) => *c,
            None if mseed % 4 == 0 || only.is_some() => Class::Control,
            None => continue,
        };
        let mut r = Rng::new(mix2(mseed, 0x111_7000 + k));
        let Some(mu) = mutate::mutate(&base, class, &mut r) else {
            mon.count(&format!("illtyped_no_site_{}", class.name()), 1);
            continue;
        };
        let m = &mu.module;
        let doc = print::document(m);
        mon.count("illtyped_generated", 1);
        mon.count(&format!("illtyped_generated_{}", class.name()), 1);
        mon.seen("illtyped_tags", &mu.tag);
        let machine = match run::compile_doc(&doc) {
            Ok(mc) => mc,
            Err(rej) => {
                mon.count("rejected_illtyped", 1);
                mon.count(&format!("illtyped_rejected_{}", class.name()), 1);
                let (stage, msg) = match &rej {
                    run::Rejected::Parse(s) => ("parse", s),
                    run::Rejected::Compile(s) => ("compile", s),
                    run::Rejected::Load(s) => ("load", s),
                };
                // `invalid type: <the type>`: keep the kind of error, not the type
                let mut why = first_line(msg);
                if let Some(i) = why.find("invalid type:") {
                    why.truncate(i + "invalid type".len());
                }
                mon.seen("illtyped_rejection_reasons", &format!("{stage}: {why}"));
                if class == Class::Control {
                    mon.seen("illtyped_control_rejection_reasons", &format!("{stage}: {why}"));
                }
                if std::env::var("POLSEM_DUMP_REJECTS").is_ok() {
                    eprintln!("--- REJECTED illtyped {kind} seed {mseed} k {k} [{}] {}\n{rej:?}\n{doc}", mu.tag, mu.what);
                }
                continue;
            }
        };
        mon.count("accepted_illtyped", 1);
        mon.count(&format!("illtyped_accepted_{}", class.name()), 1);
        mon.seen("illtyped_accepted_tags", &mu.tag);
        if std::env::var("POLSEM_DUMP_ACCEPTS").is_ok() {
            eprintln!("--- ACCEPTED illtyped {kind} seed {mseed} k {k} [{}] {}\n{doc}", mu.tag, mu.what);
        }
        let workload = format!("illtyped-{}", mu.tag);
        let ident = json!({"workload": "illtyped", "base": kind, "module_seed": mseed, "mutant": k, "tag": mu.tag, "mutation": mu.what});
        if kind == "cmd" {
            exec_cmd_module(mon, &workload, m, &doc, &machine, mseed, &ident);
        } else {
            for (fi, f) in m.funcs.iter().enumerate() {
                let mut ar = Rng::new(mix2(mseed, 0xA765 + fi as u64));
                for a in r#gen::gen_args(&mut ar, m, f, 5) {
                    let Some(vm) = run::run_function(&machine, m, &f.name, &a, false) else {
                        mon.count("vm_step_budget_exhausted", 1);
                        continue;
                    };
                    mon.count("function_runs", 1);
                    let rp = || {
                        let mut id = ident.clone();
                        id["entry"] = json!(format!("function {}", f.name));
                        id["input"] = json!(format!("args={a:?}"));
                        id["doc"] = json!(doc);
                        id
                    };
                    classify_end(mon, &workload, None, &Some(vm.exit), vm.last_kind, vm.steps, mix2(hash_of(&f.body), hash_of(&a)), &rp);
                }
            }
        }
        if mon.samples.len() < 4 && class != Class::Control {
            let src = print::source(m);
            mon.sample(|| json!({"workload": "illtyped", "base": kind, "module_seed": mseed, "mutant": k, "tag": mu.tag, "mutation": mu.what, "accepted": true, "source_excerpt": src.chars().take(1500).collect::<String>()}));
        }
    }
}

/// Dedicated probe: a fallible action returns from inside its `map` (the query iterator of that
/// `map` is still on the iterator stack) and the calling action continues its own `map`.
/// Hand-written, well-typed; accepted or not is the compiler's business, how it ends is ours.
fn run_map_return(mon: &mut Monitor) {
    let src = "---\npolicy-version: 2\n---\n\n```policy\nfact F[k int]=>{v int}\nfact G[a int]=>{b int}\n\naction inner(n int) result[unit, int] {\n    map G[a: ?] as g {\n        if g.b >= n {\n            return Err(g.b)\n        }\n    }\n    return Ok(Unit)\n}\n\naction outer(n int) {\n    map F[k: ?] as f {\n        action inner(n)\n        let x = f.v\n    }\n}\n\naction outer_same(n int) {\n    map G[a: ?] as f {\n        action inner(n)\n        let x = f.b\n    }\n}\n```\n";
    let Some(machine) = compile(mon, "quirk-map-return", src, 0) else { return };
    let int = |n: &str| (n.to_string(), Ty::Int);
    let m = Module {
        facts: vec![
            FactDef { name: "F".into(), keys: vec![int("k")], vals: vec![int("v")], immutable: false },
            FactDef { name: "G".into(), keys: vec![int("a")], vals: vec![int("b")], immutable: false },
        ],
        actions: ["inner", "outer", "outer_same"].iter().map(|n| ActionDef { name: n.to_string(), params: vec![int("n")], body: vec![] }).collect(),
        ..Module::default()
    };
    for nf in 0..4i64 {
        for ng in 0..4i64 {
            let mut store: Store = vec![];
            store.extend((0..nf).map(|i| (0usize, vec![Val::Int(i)], vec![Val::Int(10 + i)])));
            store.extend((0..ng).map(|i| (1usize, vec![Val::Int(i)], vec![Val::Int(i)])));
            for ai in 0..m.actions.len() {
                for n in [0i64, 1, 2, 9] {
                    let r = run_action(&machine, &m, ai, &[Val::Int(n)], &store, Inject::default());
                    mon.count("map_return_runs", 1);
                    let rp = || json!({"workload": "quirk-map-return", "action": m.actions[ai].name, "n": n, "facts_F": nf, "facts_G": ng, "doc": src});
                    classify_end(mon, "quirk-map-return", None, &r.exit, r.last_kind, r.steps, hash_of(&(ai, n, nf, ng)), &rp);
                }
            }
        }
    }
}

/// Replay-only workload `doc`: run ONE entry point of a hand-written policy document (used to
/// confirm a finding with a minimal program). Case format:
/// `{"workload":"doc","doc":"<document>","function"|"action"|"command":"<name>","args":[..],
///   "this":{"field":v,..},"store":[{"fact":"F","keys":{"k":1},"vals":{"v":2}}]}`
/// (values: JSON bool / integer / string; optional `"as"`: workload label used in the signature).
/// The end is printed (replay) and classified like any other.
fn run_doc(mon: &mut Monitor, c: &Value, verbose: bool) {
    let workload = c["as"].as_str().unwrap_or("doc").to_string();
    fn val(v: &Value) -> Val {
        match v {
            Value::Bool(b) => Val::Bool(*b),
            Value::Number(n) => Val::Int(n.as_i64().expect("integer")),
            Value::String(s) => Val::Str(s.clone()),
            _ => panic!("doc replay: only bool / integer / string values"),
        }
    }
    fn ty(v: &Val) -> Ty {
        match v {
            Val::Bool(_) => Ty::Bool,
            Val::Str(_) => Ty::Str,
            _ => Ty::Int,
        }
    }
    let named = |o: &Value| -> Vec<(String, Val)> { o.as_object().map(|m| m.iter().map(|(k, v)| (k.clone(), val(v))).collect()).unwrap_or_default() };
    let doc = c["doc"].as_str().expect("doc").to_string();
    let Some(machine) = compile(mon, &workload, &doc, 0) else {
        if verbose {
            eprintln!("doc: REJECTED by the compiler: {:?}", run::compile_doc(&doc).err());
        }
        return;
    };
    let args: Vec<Val> = c["args"].as_array().map(|a| a.iter().map(val).collect()).unwrap_or_default();
    let mut m = Module::default();
    let mut store: Store = vec![];
    for e in c["store"].as_array().cloned().unwrap_or_default() {
        let (name, keys, vals) = (e["fact"].as_str().expect("fact").to_string(), named(&e["keys"]), named(&e["vals"]));
        let fi = m.facts.iter().position(|f| f.name == name).unwrap_or_else(|| {
            let sig = |xs: &[(String, Val)]| xs.iter().map(|(n, v)| (n.clone(), ty(v))).collect();
            m.facts.push(FactDef { name: name.clone(), keys: sig(&keys), vals: sig(&vals), immutable: false });
            m.facts.len() - 1
        });
        store.push((fi, keys.into_iter().map(|(_, v)| v).collect(), vals.into_iter().map(|(_, v)| v).collect()));
    }
    let rp = || c.clone();
    let (exit, last, steps) = if let Some(f) = c["function"].as_str() {
        match run::run_function(&machine, &m, f, &args, true) {
            Some(vm) => (Some(vm.exit), vm.last_kind, vm.steps),
            None => (None, "?", 0),
        }
    } else if let Some(a) = c["action"].as_str() {
        m.actions.push(ActionDef { name: a.into(), params: args.iter().enumerate().map(|(i, v)| (format!("a{i}"), ty(v))).collect(), body: vec![] });
        let r = run_action(&machine, &m, 0, &args, &store, Inject::default());
        (r.exit, r.last_kind, r.steps)
    } else {
        let this = named(&c["this"]);
        m.commands.push(CommandDef { name: c["command"].as_str().expect("function / action / command").into(), fields: this.iter().map(|(n, v)| (n.clone(), ty(v))).collect(), policy: vec![], recalls: vec![] });
        let vals: Vec<Val> = this.into_iter().map(|(_, v)| v).collect();
        let r = run_command(&machine, &m, 0, &vals, &store, Inject::default());
        (r.exit, r.last_kind, r.steps)
    };
    if verbose {
        eprintln!("doc: ended with {exit:?} after {steps} steps (last instruction {last})");
    }
    classify_end(mon, &workload, None, &exit, last, steps, hash_of(&(&doc, c["args"].to_string(), c["this"].to_string())), &rp);
}

/// Hand-written probes of two checks the compiler does not make (found by the illtyped workload
/// only now and then, probed here on every run so that the signatures are stable):
///   quirk-recall-arity   `recall name(..)` with too few / too many arguments
///   quirk-bind-count     a match whose arms are all bindings of ONE variant, as many as the
///                        scrutinee type has values (`Some(a) Some(b) Some(c)` on option[bool])
fn run_fixed_probes(mon: &mut Monitor) {
    let wrap = |p: &str| format!("---\npolicy-version: 2\n---\n\n```policy\n{p}\n```\n");
    let recall = wrap(
        "command C {\n    fields { x int }\n    seal { return todo() }\n    open { return todo() }\n    policy {\n        if this.x == 0 {\n            recall r()\n        }\n        if this.x == 1 {\n            let v = saturating_add(5, recall r2(this.x))\n        }\n        recall r(this.x, 7)\n    }\n    recall r(n int) {\n        let m = saturating_add(n, 1)\n        finish {}\n    }\n    recall r2(n int, b bool) {\n        if b {\n            let m = saturating_add(n, 1)\n        }\n        finish {}\n    }\n}",
    );
    for x in 0..3 {
        run_doc(mon, &json!({"workload": "doc", "as": "quirk-recall-arity", "doc": recall, "command": "C", "this": {"x": x}}), false);
    }
    let binds = wrap(
        "function mko(flag bool) option[bool] {\n    if flag {\n        return Some(true)\n    }\n    return None\n}\nfunction mkr(flag bool) result[bool, bool] {\n    if flag {\n        return Ok(true)\n    }\n    return Err(true)\n}\nfunction f_opt(flag bool) int {\n    return match mko(flag) {\n        Some(a) => 1\n        Some(b) => 2\n        Some(c) => 3\n    }\n}\nfunction f_res(flag bool) int {\n    return match mkr(flag) {\n        Ok(a) => 1\n        Ok(b) => 2\n        Ok(c) => 3\n        Ok(d) => 4\n    }\n}\nfunction f_none(flag bool) int {\n    return match None {\n        Some(e) => 1\n    }\n}",
    );
    for f in ["f_opt", "f_res", "f_none"] {
        for flag in [true, false] {
            run_doc(mon, &json!({"workload": "doc", "as": "quirk-bind-count", "doc": binds, "function": f, "args": [flag]}), false);
        }
    }
}

/// Genuinely deep recursion: the only acceptable abnormal end is value-stack exhaustion.
fn run_recursion(mon: &mut Monitor) {
    let src = "---\npolicy-version: 2\n---\n\n```policy\nfunction rec(n int) int {\n    if n <= 0 {\n        return 0\n    }\n    return saturating_add(1, rec(saturating_sub(n, 1)))\n}\nfunction tail(n int, acc int) int {\n    if n <= 0 {\n        return acc\n    }\n    return tail(saturating_sub(n, 1), saturating_add(acc, 1))\n}\n```\n";
    let Some(machine) = compile(mon, "recursion", src, 0) else { return };
    let m = Module::default();
    for n in [0i64, 1, 5, 50, 97, 98, 99, 100, 101, 150, 400] {
        for (f, args) in [("rec", vec![Val::Int(n)]), ("tail", vec![Val::Int(n), Val::Int(0)])] {
            let Some(vm) = run::run_function(&machine, &m, f, &args, true) else { continue };
            if matches!(&vm.exit, Ok(ExitReason::Normal)) {
                // the result of the recursion must be n (sanity: the harness drives it correctly)
                mon.count("recursion_normal_ends", 1);
            }
            let rp = || json!({"workload": "recursion", "function": f, "n": n, "doc": src});
            classify_end(mon, "recursion", None, &Some(vm.exit), vm.last_kind, vm.steps, hash_of(&(f, n)), &rp);
        }
    }
}

fn new_mon() -> Monitor {
    Monitor::new(
        "C24",
        "accepted generated code run in the VM and classified by its end: (pure-reuse) random pure modules reusing names of closed sibling/nested scopes with injected FFI failures; (cmd) modules with facts, effects, finish functions, commands (policy/recall/finish), actions (publish, action calls, map), exists/count/query on a model-backed MonitorIO with injected I/O failures; (recursion) deep recursion; (quirk-*) programs using accepted-but-dubious constructs: partial struct literals, binding alternations; (illtyped) accepted pure/command modules with ONE type-breaking IR mutation (wrong-expr, ctor-swap, decl, arity, var-swap, global-let) plus declared-type consumers of every function result and global - rejected mutants are only counted, accepted ones are executed; fixed probes quirk-map-return / quirk-recall-arity / quirk-bind-count. non-trivial = execution of >= 8 VM steps or ending in an I/O error; distinct by hash(entry point body, input)",
    )
    .min(2000)
    .require("end_Normal", "normal ends must be observed")
    .require("end_Panic", "panic ends must be observed")
    .require("end_Check", "check ends must be observed")
    .require("end_io_or_ffi_error", "injected I/O / FFI errors must be observed")
    .require("end_stack_exhaustion", "deep recursion must reach the excepted stack exhaustion")
    .require("command_runs", "command policies must be executed")
    .require("action_runs", "actions must be executed")
    .require("commands_published", "actions must publish commands")
    .require("rejected_illtyped", "ill-typed mutants must be rejected by the compiler")
    .require("accepted_illtyped", "accepted mutants (type-preserving by accident, or a checker hole) must be executed")
    .require("illtyped_generated_wrong-expr", "mutation class must occur")
    .require("illtyped_generated_ctor-swap", "mutation class must occur")
    .require("illtyped_generated_decl", "mutation class must occur")
    .require("illtyped_generated_arity", "mutation class must occur")
    .require("illtyped_generated_var-swap", "mutation class must occur")
    .require("illtyped_generated_global-let", "mutation class must occur")
    .require("illtyped_accepted_control", "the unmutated control with consumers must be accepted and executed")
    .cap(64)
}

trait Cap {
    fn cap(self, n: usize) -> Self;
}
impl Cap for Monitor {
    fn cap(mut self, n: usize) -> Self {
        self.max_violations = n;
        self
    }
}

fn main() {
    let args = Args::parse();
    let mut mon = new_mon();
    if let Some(r) = args.replay_case() {
        let c = if r["case"]["case"].is_object() { &r["case"]["case"] } else { &r["case"] };
        let mseed = c["module_seed"].as_u64().unwrap_or(0);
        match c["workload"].as_str() {
            Some("cmd") => run_cmd_module(&mut mon, mseed),
            Some("quirk-partial-struct") => run_quirk_module(&mut mon, "quirk-partial-struct", mseed),
            Some("quirk-bind-alt") => run_quirk_module(&mut mon, "quirk-bind-alt", mseed),
            Some("recursion") => run_recursion(&mut mon),
            Some("quirk-map-return") => run_map_return(&mut mon),
            Some("doc") => run_doc(&mut mon, c, true),
            Some("illtyped") => {
                let kind = if c["base"].as_str() == Some("cmd") { "cmd" } else { "pure" };
                run_illtyped(&mut mon, kind, mseed, c["mutant"].as_u64());
            }
            Some("random") => {
                let mut ms = pure::new_mons();
                pure::run_module(
                    &mut ms,
                    c["mode"].as_str().unwrap_or("reuse"),
                    mseed,
                    Some((c["fidx"].as_u64().unwrap() as usize, c["arg_index"].as_u64().unwrap() as usize)),
                );
                mon_polsem::merge(&mut mon, ms.c24);
            }
            _ => panic!("unknown replay workload"),
        }
        finish_all(&args, vec![mon]);
    }
    let n_cmd = args.n(4000, 120_000);
    let n_pure = args.n(4000, 100_000);
    let n_quirk = args.n(300, 5_000);
    // base modules; each yields 8 mutants (+ a control for every 4th)
    let n_ill_pure = args.n(1600, 40_000);
    let n_ill_cmd = args.n(1200, 30_000);
    let seed = args.seed;
    // development aid: `--set only=illtyped` runs that workload alone (verdict then INCONCLUSIVE)
    let only = args.get("only").map(str::to_owned);
    let (n_cmd, n_pure, n_quirk) = if only.as_deref() == Some("illtyped") { (0, 0, 0) } else { (n_cmd, n_pure, n_quirk) };
    let time_cap = args.get_u64("time_cap_s", if args.tier == Tier::Quick { 240 } else { 3000 });
    let start = std::time::Instant::now();
    let parts = par_shards(cores(), |shard, nshards| {
        let mut w = new_mon();
        let capped = |w: &mut Monitor| {
            if start.elapsed().as_secs() > time_cap {
                w.count("time_cap_hit", 1);
                true
            } else {
                false
            }
        };
        for i in 0..if n_cmd == 0 { 0 } else { (n_cmd as usize).div_ceil(nshards) as u64 } {
            if capped(&mut w) {
                break;
            }
            run_cmd_module(&mut w, mix2(mix2(seed, 0x24C), mix2(shard as u64, i)));
        }
        // pure modules with name reuse (functions, not modules, are counted)
        let mut ms = pure::new_mons();
        let my = if n_pure == 0 { 0 } else { (n_pure as usize).div_ceil(nshards) };
        let (mut done, mut i) = (0usize, 0u64);
        while done < my && i < my as u64 * 4 + 16 {
            if capped(&mut w) {
                break;
            }
            done += pure::run_module(&mut ms, "reuse", mix2(mix2(seed, 0x24A), mix2(shard as u64, i)), None);
            i += 1;
        }
        mon_polsem::merge(&mut w, ms.c24);
        for i in 0..if n_quirk == 0 { 0 } else { (n_quirk as usize).div_ceil(nshards) as u64 } {
            if capped(&mut w) {
                break;
            }
            run_quirk_module(&mut w, "quirk-partial-struct", mix2(mix2(seed, 0x24B), mix2(shard as u64, i)));
            run_quirk_module(&mut w, "quirk-bind-alt", mix2(mix2(seed, 0x24D), mix2(shard as u64, i)));
        }
        for i in 0..(n_ill_pure as usize).div_ceil(nshards) as u64 {
            if capped(&mut w) {
                break;
            }
            run_illtyped(&mut w, "pure", mix2(mix2(seed, 0x24E), mix2(shard as u64, i)), None);
        }
        for i in 0..(n_ill_cmd as usize).div_ceil(nshards) as u64 {
            if capped(&mut w) {
                break;
            }
            run_illtyped(&mut w, "cmd", mix2(mix2(seed, 0x24F), mix2(shard as u64, i)), None);
        }
        w
    });
    for p in parts {
        mon_polsem::merge(&mut mon, p);
    }
    run_recursion(&mut mon);
    run_map_return(&mut mon);
    run_fixed_probes(&mut mon);
    // one witness per signature after merging the workers
    let mut seen = std::collections::BTreeSet::new();
    mon.violations.retain(|v| seen.insert(v.signature.clone()));
    let g = mon.counters.get("modules_generated").copied().unwrap_or(0);
    let a = mon.counters.get("modules_accepted").copied().unwrap_or(0);
    if g > 0 {
        mon.counters.insert("acceptance_permille".into(), a * 1000 / g);
        if a * 2 < g {
            mon.inconclusive(&format!("generator acceptance collapsed: {a}/{g} modules accepted"));
        }
    }
    finish_all(&args, vec![mon]);
}
