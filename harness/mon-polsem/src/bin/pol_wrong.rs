//! C24 policies the compiler accepts do not go wrong.
//!
//! Every VM execution of compiler-accepted generated code is classified by how it ended
//! (see `polkit::run::classify` for the per-variant justification of `MachineErrorType`).
//! Workloads (each has its own signature prefix so findings do not mask each other):
//!   pure-reuse      random pure-function modules that deliberately reuse names of closed scopes,
//!                   with injected FFI failures (shared with pol_sem; also compared with the
//!                   reference evaluator there)
//!   cmd             modules with facts / effects / finish functions / commands (policy, recall,
//!                   finish) / actions publishing commands / map / queries on a model-backed
//!                   MonitorIO, with injected I/O failures
//!   recursion       genuinely deep recursion (value-stack exhaustion is excepted by the statement)
//!   quirk-partial-struct   struct literals that omit fields
//!   quirk-bind-alt         match alternations mixing a binding with another variant
use mon_polsem::{cmdrun::*, first_line, pure};
use polkit::{
    cmdgen::{self, CmdCfg},
    r#gen::{self, GenCfg},
    io::Inject,
    ir::*,
    print,
    run::{self, ErrClass},
};
use vcore::*;

use aranya_policy_vm::{ExitReason, MachineError};

#[allow(clippy::too_many_arguments)]
fn classify_end(
    mon: &mut Monitor,
    workload: &str,
    class: Option<&str>,
    exit: &Option<Result<ExitReason, MachineError>>,
    last_kind: &str,
    steps: u64,
    case_hash: u64,
    replay: &dyn Fn() -> Value,
) {
    let Some(exit) = exit else {
        mon.count("vm_step_budget_exhausted", 1);
        return;
    };
    mon.eval();
    match exit {
        Ok(r) => {
            mon.count(&format!("end_{r:?}"), 1);
            if steps >= 8 {
                mon.nontrivial(case_hash);
            }
        }
        Err(e) => match run::classify(&e.err_type) {
            ErrClass::IoOrFfi => {
                mon.count("end_io_or_ffi_error", 1);
                mon.seen("io_or_ffi_errors", run::err_name(&e.err_type));
                mon.nontrivial(case_hash);
            }
            ErrClass::StackExhaustion => mon.count("end_stack_exhaustion", 1),
            ErrClass::Harness => mon.count("harness_errors", 1),
            ErrClass::WentWrong => {
                mon.count(&format!("went_wrong_{workload}"), 1);
                // quirk workloads are dedicated to one dubious construct: the signature names the
                // workload and the error only; everywhere else the failing instruction is included
                let sig = if let Some(c) = class {
                    format!("c24:{c}")
                } else if workload.starts_with("quirk-") {
                    format!("c24:{workload}:{}", run::err_name(&e.err_type))
                } else {
                    format!("c24:{workload}:{}@{last_kind}", run::err_name(&e.err_type))
                };
                mon_polsem::violation_capped(mon, &sig, json!({"case": replay(), "error": e.to_string()}));
            }
        },
    }
}

fn compile(mon: &mut Monitor, workload: &str, doc: &str, seed: u64) -> Option<aranya_policy_vm::Machine> {
    mon.count("modules_generated", 1);
    mon.count(&format!("generated_{workload}"), 1);
    match run::compile_doc(doc) {
        Ok(mc) => {
            mon.count("modules_accepted", 1);
            mon.count(&format!("accepted_{workload}"), 1);
            Some(mc)
        }
        Err(r) => {
            mon.count("modules_rejected", 1);
            mon.seen("rejection_reasons", &first_line(&format!("{r:?}")));
            if std::env::var("POLSEM_DUMP_REJECTS").is_ok() {
                eprintln!("--- REJECTED {workload} seed {seed}\n{r:?}\n{doc}");
            }
            None
        }
    }
}

/// Commands + actions + pure functions (with queries) of a generated command module.
fn run_cmd_module(mon: &mut Monitor, mseed: u64) {
    let mut mr = Rng::new(mseed);
    let m = cmdgen::gen_command_module(&mut mr, &CmdCfg { reuse_names: mseed & 1 == 1 });
    let doc = print::document(&m);
    let Some(machine) = compile(mon, "cmd", &doc, mseed) else { return };
    // (the substruct-to-empty-struct defect is repaired in /repo: no special input class any more)
    let class: Option<&str> = None;
    let mk_replay = |what: String, input: String| {
        let doc = doc.clone();
        move || json!({"workload": "cmd", "module_seed": mseed, "entry": what, "input": input, "doc": doc})
    };
    for ci in 0..m.commands.len() {
        for k in 0..5u64 {
            let mut ir = Rng::new(mix2(mseed, 0xC0DE + (ci as u64) * 64 + k));
            let this: Vec<Val> = m.commands[ci].fields.iter().map(|(_, t)| cmdgen::small_val(&mut ir, &m, t)).collect();
            let store = cmdgen::gen_store(&mut ir, &m);
            let inject = match k {
                3 => Inject { fail_write_at: Some(ir.usize(3)), fail_query_at: None },
                4 => Inject { fail_write_at: None, fail_query_at: Some(ir.usize(3)) },
                _ => Inject::default(),
            };
            let r = run_command(&machine, &m, ci, &this, &store, inject);
            for kd in &r.kinds {
                mon.seen("instruction_kinds", kd);
            }
            mon.count("command_runs", 1);
            let rp = mk_replay(format!("command {}", m.commands[ci].name), format!("this={this:?} store={store:?} inject={inject:?}"));
            classify_end(mon, "cmd", class, &r.exit, r.last_kind, r.steps, mix2(hash_of(&m.commands[ci]), hash_of(&this)), &rp);
        }
    }
    for ai in 0..m.actions.len() {
        for k in 0..4u64 {
            let mut ir = Rng::new(mix2(mseed, 0xAC7 + (ai as u64) * 64 + k));
            let args: Vec<Val> = m.actions[ai].params.iter().map(|(_, t)| cmdgen::small_val(&mut ir, &m, t)).collect();
            let store = cmdgen::gen_store(&mut ir, &m);
            let inject = if k == 3 { Inject { fail_write_at: None, fail_query_at: Some(ir.usize(2)) } } else { Inject::default() };
            let r = run_action(&machine, &m, ai, &args, &store, inject);
            for kd in &r.kinds {
                mon.seen("instruction_kinds", kd);
            }
            mon.count("action_runs", 1);
            mon.count("commands_published", r.obs.publishes);
            let rp = mk_replay(format!("action {}", m.actions[ai].name), format!("args={args:?} store={store:?}"));
            classify_end(mon, "cmd", class, &r.exit, r.last_kind, r.steps, mix2(hash_of(&m.actions[ai]), hash_of(&args)), &rp);
        }
    }
    // pure functions of the module (they may query facts): run with an empty store
    for (fi, f) in m.funcs.iter().enumerate() {
        let mut ar = Rng::new(mix2(mseed, 0xA765 + fi as u64));
        for a in r#gen::gen_args(&mut ar, &m, f, 4) {
            let Some(vm) = run::run_function(&machine, &m, &f.name, &a, true) else { continue };
            for kd in &vm.kinds {
                mon.seen("instruction_kinds", kd);
            }
            mon.count("function_runs", 1);
            let rp = mk_replay(format!("function {}", f.name), format!("args={a:?}"));
            classify_end(mon, "cmd", class, &Some(vm.exit), vm.last_kind, vm.steps, mix2(hash_of(&f.body), hash_of(&a)), &rp);
        }
    }
    if mon.samples.len() < 2 {
        let src = print::source(&m);
        mon.sample(|| json!({"module_seed": mseed, "workload": "cmd", "source_excerpt": src.chars().take(1800).collect::<String>()}));
    }
}

/// Pure modules generated with one quirk enabled; no reference (semantics undefined).
fn run_quirk_module(mon: &mut Monitor, workload: &'static str, mseed: u64) {
    let cfg = match workload {
        "quirk-partial-struct" => GenCfg { quirk_partial_struct: true, never_exprs: false, fall_off: false, ..GenCfg::default() },
        _ => GenCfg { quirk_bind_alt: true, never_exprs: false, fall_off: false, ..GenCfg::default() },
    };
    let mut mr = Rng::new(mseed);
    let m = r#gen::gen_module(&mut mr, &cfg);
    let doc = print::document(&m);
    let Some(machine) = compile(mon, workload, &doc, mseed) else { return };
    // (the substruct-to-empty-struct defect is repaired in /repo: no special input class any more)
    let class: Option<&str> = None;
    for (fi, f) in m.funcs.iter().enumerate() {
        let mut ar = Rng::new(mix2(mseed, 0xA765 + fi as u64));
        for (ai, a) in r#gen::gen_args(&mut ar, &m, f, 6).iter().enumerate() {
            let Some(vm) = run::run_function(&machine, &m, &f.name, a, true) else { continue };
            let doc = doc.clone();
            let rp = move || json!({"workload": workload, "module_seed": mseed, "function": f.name, "arg_index": ai, "args": format!("{a:?}"), "doc": doc});
            classify_end(mon, workload, class, &Some(vm.exit), vm.last_kind, vm.steps, mix2(hash_of(&f.body), hash_of(&a)), &rp);
        }
    }
}

/// Genuinely deep recursion: the only acceptable abnormal end is value-stack exhaustion.
fn run_recursion(mon: &mut Monitor) {
    let src = "---\npolicy-version: 2\n---\n\n```policy\nfunction rec(n int) int {\n    if n <= 0 {\n        return 0\n    }\n    return saturating_add(1, rec(saturating_sub(n, 1)))\n}\nfunction tail(n int, acc int) int {\n    if n <= 0 {\n        return acc\n    }\n    return tail(saturating_sub(n, 1), saturating_add(acc, 1))\n}\n```\n";
    let Some(machine) = compile(mon, "recursion", src, 0) else { return };
    let m = Module::default();
    for n in [0i64, 1, 5, 50, 97, 98, 99, 100, 101, 150, 400] {
        for (f, args) in [("rec", vec![Val::Int(n)]), ("tail", vec![Val::Int(n), Val::Int(0)])] {
            let Some(vm) = run::run_function(&machine, &m, f, &args, true) else { continue };
            if matches!(&vm.exit, Ok(ExitReason::Normal)) {
                // the result of the recursion must be n (sanity: the harness drives it correctly)
                mon.count("recursion_normal_ends", 1);
            }
            let rp = || json!({"workload": "recursion", "function": f, "n": n, "doc": src});
            classify_end(mon, "recursion", None, &Some(vm.exit), vm.last_kind, vm.steps, hash_of(&(f, n)), &rp);
        }
    }
}

fn new_mon() -> Monitor {
    Monitor::new(
        "C24",
        "accepted generated code run in the VM and classified by its end: (pure-reuse) random pure modules reusing names of closed sibling/nested scopes with injected FFI failures; (cmd) modules with facts, effects, finish functions, commands (policy/recall/finish), actions (publish, action calls, map), exists/count/query on a model-backed MonitorIO with injected I/O failures; (recursion) deep recursion; (quirk-*) programs using accepted-but-dubious constructs: partial struct literals, binding alternations. non-trivial = execution of >= 8 VM steps or ending in an I/O error; distinct by hash(entry point body, input)",
    )
    .min(2000)
    .require("end_Normal", "normal ends must be observed")
    .require("end_Panic", "panic ends must be observed")
    .require("end_Check", "check ends must be observed")
    .require("end_io_or_ffi_error", "injected I/O / FFI errors must be observed")
    .require("end_stack_exhaustion", "deep recursion must reach the excepted stack exhaustion")
    .require("command_runs", "command policies must be executed")
    .require("action_runs", "actions must be executed")
    .require("commands_published", "actions must publish commands")
    .cap(64)
}

trait Cap {
    fn cap(self, n: usize) -> Self;
}
impl Cap for Monitor {
    fn cap(mut self, n: usize) -> Self {
        self.max_violations = n;
        self
    }
}

fn main() {
    let args = Args::parse();
    let mut mon = new_mon();
    if let Some(r) = args.replay_case() {
        let c = if r["case"]["case"].is_object() { &r["case"]["case"] } else { &r["case"] };
        let mseed = c["module_seed"].as_u64().unwrap_or(0);
        match c["workload"].as_str() {
            Some("cmd") => run_cmd_module(&mut mon, mseed),
            Some("quirk-partial-struct") => run_quirk_module(&mut mon, "quirk-partial-struct", mseed),
            Some("quirk-bind-alt") => run_quirk_module(&mut mon, "quirk-bind-alt", mseed),
            Some("recursion") => run_recursion(&mut mon),
            Some("random") => {
                let mut ms = pure::new_mons();
                pure::run_module(
                    &mut ms,
                    c["mode"].as_str().unwrap_or("reuse"),
                    mseed,
                    Some((c["fidx"].as_u64().unwrap() as usize, c["arg_index"].as_u64().unwrap() as usize)),
                );
                mon_polsem::merge(&mut mon, ms.c24);
            }
            _ => panic!("unknown replay workload"),
        }
        finish_all(&args, vec![mon]);
    }
    let n_cmd = args.n(4000, 120_000);
    let n_pure = args.n(4000, 100_000);
    let n_quirk = args.n(300, 5_000);
    let seed = args.seed;
    let time_cap = args.get_u64("time_cap_s", if args.tier == Tier::Quick { 240 } else { 3000 });
    let start = std::time::Instant::now();
    let parts = par_shards(cores(), |shard, nshards| {
        let mut w = new_mon();
        let capped = |w: &mut Monitor| {
            if start.elapsed().as_secs() > time_cap {
                w.count("time_cap_hit", 1);
                true
            } else {
                false
            }
        };
        for i in 0..(n_cmd as usize).div_ceil(nshards) as u64 {
            if capped(&mut w) {
                break;
            }
            run_cmd_module(&mut w, mix2(mix2(seed, 0x24C), mix2(shard as u64, i)));
        }
        // pure modules with name reuse (functions, not modules, are counted)
        let mut ms = pure::new_mons();
        let my = (n_pure as usize).div_ceil(nshards);
        let (mut done, mut i) = (0usize, 0u64);
        while done < my && i < my as u64 * 4 + 16 {
            if capped(&mut w) {
                break;
            }
            done += pure::run_module(&mut ms, "reuse", mix2(mix2(seed, 0x24A), mix2(shard as u64, i)), None);
            i += 1;
        }
        mon_polsem::merge(&mut w, ms.c24);
        for i in 0..(n_quirk as usize).div_ceil(nshards) as u64 {
            if capped(&mut w) {
                break;
            }
            run_quirk_module(&mut w, "quirk-partial-struct", mix2(mix2(seed, 0x24B), mix2(shard as u64, i)));
            run_quirk_module(&mut w, "quirk-bind-alt", mix2(mix2(seed, 0x24D), mix2(shard as u64, i)));
        }
        w
    });
    for p in parts {
        mon_polsem::merge(&mut mon, p);
    }
    run_recursion(&mut mon);
    // one witness per signature after merging the workers
    let mut seen = std::collections::BTreeSet::new();
    mon.violations.retain(|v| seen.insert(v.signature.clone()));
    let g = mon.counters.get("modules_generated").copied().unwrap_or(0);
    let a = mon.counters.get("modules_accepted").copied().unwrap_or(0);
    if g > 0 {
        mon.counters.insert("acceptance_permille".into(), a * 1000 / g);
        if a * 2 < g {
            mon.inconclusive(&format!("generator acceptance collapsed: {a}/{g} modules accepted"));
        }
    }
    finish_all(&args, vec![mon]);
}
