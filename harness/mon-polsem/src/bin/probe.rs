use aranya_policy_compiler::Compiler;
use aranya_policy_lang::lang::parse_policy_document;
use aranya_policy_vm::*;
use aranya_policy_vm::ffi::{self, ModuleSchema};
use aranya_crypto::{BaseId, DeviceId, policy::CmdId};
use std::cell::RefCell;

struct Io { log: RefCell<Vec<String>> }
impl MachineIO<MachineStack> for Io {
    type QueryIterator = Box<dyn Iterator<Item = Result<(FactKeyList, FactValueList), MachineIOError>>>;
    fn fact_insert(&mut self, _n: Identifier, _k: impl IntoIterator<Item = FactKey>, _v: impl IntoIterator<Item = FactValue>) -> Result<(), MachineIOError> { Ok(()) }
    fn fact_delete(&mut self, _n: Identifier, _k: impl IntoIterator<Item = FactKey>) -> Result<(), MachineIOError> { Ok(()) }
    fn fact_query(&self, _n: Identifier, _k: impl IntoIterator<Item = FactKey>) -> Result<Self::QueryIterator, MachineIOError> { Ok(Box::new(std::iter::empty())) }
    fn effect(&mut self, _n: Identifier, _f: impl IntoIterator<Item = KVPair>, _c: CmdId, _r: bool) {}
    fn call(&self, module: usize, procedure: usize, stack: &mut MachineStack, _ctx: &CommandContext) -> Result<(), MachineError> {
        let n: i64 = stack.pop()?;
        self.log.borrow_mut().push(format!("{module}.{procedure}({n})"));
        stack.push(Value::Int(n))?;
        Ok(())
    }
}

fn main() {
    let schemas = [ModuleSchema { name: ident!("probe"), functions: &[ffi::Func { name: ident!("hit"), args: &[ffi::Arg { name: ident!("n"), vtype: ffi::Type::Int }], return_type: ffi::Type::Int }], structs: &[], enums: &[] }];
    let src = std::fs::read_to_string(std::env::args().nth(1).unwrap()).unwrap();
    let pol = match parse_policy_document(&src) { Ok(p) => p, Err(e) => { println!("PARSE ERR: {e}"); return; } };
    let module = match Compiler::new(&pol).ffi_modules(&schemas).debug(true).compile() { Ok(m) => m, Err(e) => { println!("COMPILE ERR: {e}"); return; } };
    let machine = Machine::from_module(module).unwrap();
    if std::env::args().nth(3).is_some() { println!("{machine}"); }
    let fname: Identifier = std::env::args().nth(2).unwrap().parse().unwrap();
    let mut io = Io { log: RefCell::new(vec![]) };
    let ctx = CommandContext::Policy(PolicyContext { name: fname.clone(), id: CmdId::default(), author: DeviceId::default(), version: BaseId::default() });
    let mut rs = machine.create_run_state(&mut io, ctx);
    rs.set_pc_by_label(&Label::new(fname, LabelType::Function)).unwrap();
    let r = rs.run();
    println!("exit: {r:?}");
    println!("stack: {:?}", rs.stack.as_slice());
    println!("log: {:?}", io.log.borrow());
}
