//! Generators for VM values, texts, identifiers and schemas.

use aranya_policy_vm::{
    ConstStruct, ConstValue, EnumDef, Fact, FactKey, FactValue, HashableValue, Identifier, Struct,
    StructDef, Text, TypeKind, Value, automap::AutoMap,
};
use vcore::Rng;

pub fn ident(s: &str) -> Identifier {
    s.parse().unwrap_or_else(|_| panic!("bad identifier {s:?}"))
}

pub fn text(s: &str) -> Text {
    s.parse().unwrap_or_else(|_| panic!("bad text {s:?}"))
}

/// Small alphabet of names so programs, schemas and values collide.
pub const NAMES: &[&str] = &[
    "a", "b", "c", "x", "y", "S", "T", "U", "F", "G", "E", "Cmd", "Eff", "this", "envelope", "act",
    "f", "g", "pc", "k", "v",
];

/// Pick one of a list of string literals.
pub fn ps<'a>(rng: &mut Rng, xs: &[&'a str]) -> &'a str {
    xs[rng.usize(xs.len())]
}

pub fn gen_name(rng: &mut Rng) -> Identifier {
    ident(ps(rng, NAMES))
}

pub fn gen_text(rng: &mut Rng) -> Text {
    let n = match rng.below(6) {
        0 => 0,
        1 => 1,
        2 => rng.urange(2, 8),
        3 => rng.urange(100, 300),
        _ => rng.urange(1, 16),
    };
    let mut s = String::new();
    for _ in 0..n {
        let c = match rng.below(8) {
            0 => char::from_u32(rng.range(0x80, 0x7ff) as u32).unwrap_or('é'),
            1 => char::from_u32(rng.range(0x800, 0xd7ff) as u32).unwrap_or('€'),
            2 => char::from_u32(rng.range(0x10000, 0x10ffff) as u32).unwrap_or('𝄞'),
            3 => *rng.pick(&['\n', '\t', '"', '\\', '\u{1}', '\u{7f}', ' ']),
            _ => (b'a' + rng.below(26) as u8) as char,
        };
        s.push(c);
    }
    text(&s)
}

pub fn gen_int(rng: &mut Rng) -> i64 {
    match rng.below(8) {
        0 => *rng.pick(&[i64::MIN, i64::MIN + 1, -1, 0, 1, i64::MAX - 1, i64::MAX]),
        1 => rng.range(0, 300) as i64 - 150,
        2 => (rng.u64() >> rng.below(64)) as i64,
        3 => -((rng.u64() >> rng.below(64)) as i64).wrapping_abs(),
        _ => rng.range(0, 10) as i64,
    }
}

pub fn gen_id(rng: &mut Rng) -> aranya_id::BaseId {
    let mut b = [0u8; 32];
    match rng.below(4) {
        0 => {}
        1 => b = [0xff; 32],
        _ => rng.fill(&mut b),
    }
    aranya_id::BaseId::from_bytes(b)
}

pub fn gen_bytes(rng: &mut Rng) -> Vec<u8> {
    let n = match rng.below(5) {
        0 => 0,
        1 => rng.urange(120, 260),
        _ => rng.urange(1, 12),
    };
    rng.bytes(n)
}

pub struct Defs<'a> {
    pub structs: &'a AutoMap<StructDef>,
    pub enums: &'a AutoMap<EnumDef>,
}

/// A value that fits `ty` (None when the type has no values or refers to a missing definition).
pub fn gen_value(rng: &mut Rng, ty: &TypeKind, defs: &Defs<'_>, depth: u32) -> Option<Value> {
    if depth > 12 {
        return None;
    }
    Some(match ty {
        TypeKind::Unit => Value::Unit,
        TypeKind::String => Value::String(gen_text(rng)),
        TypeKind::Bytes => Value::Bytes(gen_bytes(rng)),
        TypeKind::Int => Value::Int(gen_int(rng)),
        TypeKind::Bool => Value::Bool(rng.bool()),
        TypeKind::Id => Value::Id(gen_id(rng)),
        TypeKind::Struct(name) => Value::Struct(gen_struct(rng, name, defs, depth + 1)?),
        TypeKind::Enum(name) => {
            let d = defs.enums.get(name)?;
            if d.variants.is_empty() {
                return None;
            }
            let (_, v) = rng.pick(&d.variants);
            Value::Enum(name.clone(), *v)
        }
        TypeKind::Optional(inner) => {
            if rng.chance(1, 3) {
                Value::NONE
            } else {
                match gen_value(rng, inner, defs, depth + 1) {
                    Some(v) => Value::Option(Some(Box::new(v))),
                    None => Value::NONE,
                }
            }
        }
        TypeKind::Never => return None,
        TypeKind::Result(r) => {
            let want_ok = rng.bool();
            let ok = |rng: &mut Rng| gen_value(rng, &r.ok, defs, depth + 1).map(|v| Value::Result(Ok(Box::new(v))));
            let err = |rng: &mut Rng| gen_value(rng, &r.err, defs, depth + 1).map(|v| Value::Result(Err(Box::new(v))));
            if want_ok {
                ok(rng).or_else(|| err(rng))?
            } else {
                err(rng).or_else(|| ok(rng))?
            }
        }
    })
}

pub fn gen_struct(rng: &mut Rng, name: &Identifier, defs: &Defs<'_>, depth: u32) -> Option<Struct> {
    let d = defs.structs.get(name)?;
    let mut fields = std::collections::BTreeMap::new();
    for f in &d.items {
        fields.insert(f.name.clone(), gen_value(rng, &f.ty, defs, depth)?);
    }
    Some(Struct { name: name.clone(), fields })
}

pub fn gen_hashable(rng: &mut Rng) -> HashableValue {
    match rng.below(5) {
        0 => HashableValue::Int(gen_int(rng)),
        1 => HashableValue::Bool(rng.bool()),
        2 => HashableValue::String(gen_text(rng)),
        3 => HashableValue::Id(gen_id(rng)),
        _ => HashableValue::Enum(gen_name(rng), rng.range(0, 4) as i64 - 1),
    }
}

pub fn gen_fact(rng: &mut Rng, depth: u32) -> Fact {
    let mut f = Fact::new(gen_name(rng));
    for _ in 0..rng.usize(3) {
        f.keys.push(FactKey::new(gen_name(rng), gen_hashable(rng)));
    }
    for _ in 0..rng.usize(3) {
        f.values.push(FactValue::new(gen_name(rng), gen_any_value(rng, depth + 1)));
    }
    f
}

/// Any value of any kind, schema-free (all 12 `Value` variants).
pub fn gen_any_value(rng: &mut Rng, depth: u32) -> Value {
    let k = if depth >= 3 { rng.below(8) } else { rng.below(12) };
    match k {
        0 => Value::Unit,
        1 => Value::Int(gen_int(rng)),
        2 => Value::Bool(rng.bool()),
        3 => Value::String(gen_text(rng)),
        4 => Value::Bytes(gen_bytes(rng)),
        5 => Value::Id(gen_id(rng)),
        6 => Value::Enum(gen_name(rng), rng.range(0, 4) as i64 - 1),
        7 => Value::Identifier(gen_name(rng)),
        8 => {
            let mut fields = std::collections::BTreeMap::new();
            for _ in 0..rng.usize(4) {
                fields.insert(gen_name(rng), gen_any_value(rng, depth + 1));
            }
            Value::Struct(Struct { name: gen_name(rng), fields })
        }
        9 => Value::Fact(gen_fact(rng, depth)),
        10 => {
            if rng.chance(1, 3) {
                Value::NONE
            } else {
                Value::Option(Some(Box::new(gen_any_value(rng, depth + 1))))
            }
        }
        _ => {
            let v = Box::new(gen_any_value(rng, depth + 1));
            Value::Result(if rng.bool() { Ok(v) } else { Err(v) })
        }
    }
}

pub fn value_kind(v: &Value) -> &'static str {
    match v {
        Value::Unit => "Unit",
        Value::Int(_) => "Int",
        Value::Bool(_) => "Bool",
        Value::String(_) => "String",
        Value::Bytes(_) => "Bytes",
        Value::Struct(_) => "Struct",
        Value::Fact(_) => "Fact",
        Value::Id(_) => "Id",
        Value::Enum(..) => "Enum",
        Value::Identifier(_) => "Identifier",
        Value::Option(_) => "Option",
        Value::Result(_) => "Result",
    }
}

pub fn gen_const(rng: &mut Rng, depth: u32) -> ConstValue {
    let k = if depth >= 3 { rng.below(5) } else { rng.below(8) };
    match k {
        0 => ConstValue::Unit,
        1 => ConstValue::Int(gen_int(rng)),
        2 => ConstValue::Bool(rng.bool()),
        3 => ConstValue::String(gen_text(rng)),
        4 => ConstValue::Enum(gen_name(rng), rng.range(0, 4) as i64 - 1),
        5 => {
            let mut fields = std::collections::BTreeMap::new();
            for _ in 0..rng.usize(3) {
                fields.insert(gen_name(rng), gen_const(rng, depth + 1));
            }
            ConstValue::Struct(ConstStruct { name: gen_name(rng), fields })
        }
        6 => {
            if rng.chance(1, 3) {
                ConstValue::NONE
            } else {
                ConstValue::Option(Some(Box::new(gen_const(rng, depth + 1))))
            }
        }
        _ => {
            let v = Box::new(gen_const(rng, depth + 1));
            ConstValue::Result(if rng.bool() { Ok(v) } else { Err(v) })
        }
    }
}

/// A random type over the small name alphabet (may refer to undefined structs/enums).
pub fn gen_type(rng: &mut Rng, depth: u32) -> TypeKind {
    let k = if depth >= 3 { rng.below(8) } else { rng.below(11) };
    match k {
        0 => TypeKind::Unit,
        1 => TypeKind::String,
        2 => TypeKind::Bytes,
        3 => TypeKind::Int,
        4 => TypeKind::Bool,
        5 => TypeKind::Id,
        6 => TypeKind::Struct(ident(ps(rng, &["S", "T", "U", "Cmd", "Eff"]))),
        7 => TypeKind::Enum(ident(ps(rng, &["E", "G"]))),
        8 => TypeKind::Optional(Box::new(gen_type(rng, depth + 1))),
        9 => TypeKind::Never,
        _ => TypeKind::Result(Box::new(aranya_policy_vm::ResultTypeKind {
            ok: gen_type(rng, depth + 1),
            err: gen_type(rng, depth + 1),
        })),
    }
}

/// Number of nodes in a value, stopping early once `cap` is exceeded.
pub fn value_nodes(v: &Value, cap: usize) -> usize {
    fn go(v: &Value, n: &mut usize, cap: usize) {
        *n += 1;
        if *n > cap {
            return;
        }
        match v {
            Value::Struct(s) => {
                for x in s.fields.values() {
                    go(x, n, cap);
                }
            }
            Value::Fact(f) => {
                *n += f.keys.len();
                for x in &f.values {
                    go(&x.value, n, cap);
                }
            }
            Value::Option(Some(x)) => go(x, n, cap),
            Value::Result(Ok(x)) | Value::Result(Err(x)) => go(x, n, cap),
            Value::Bytes(b) => *n += b.len() / 64,
            Value::String(s) => *n += s.as_str().len() / 64,
            _ => {}
        }
    }
    let mut n = 0;
    go(v, &mut n, cap);
    n
}
