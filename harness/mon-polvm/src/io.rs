//! Harness `MachineIO` implementations.
//!
//! * `RecIO`: deterministic fact store that records every operation (C28).
//! * `ChaosIO`: answers every request with seeded arbitrary results and errors (C25).

use std::{cell::RefCell, collections::BTreeMap};

use aranya_crypto::policy::CmdId;
use aranya_policy_vm::{
    CommandContext, EnumDef, FactKey, FactKeyList, FactValue, FactValueList, Identifier, KVPair,
    MachineError, MachineErrorType, MachineIO, MachineIOError, Stack, StructDef, TypeKind, Value,
    automap::AutoMap, ffi::ModuleSchema,
};
use vcore::{Rng, hash_of};

use crate::vals::{self, Defs};

type QueryItem = Result<(FactKeyList, FactValueList), MachineIOError>;

/// Signature of one foreign function, in module-type terms.
#[derive(Clone, Debug)]
pub struct FfiSig {
    pub nargs: usize,
    pub ret: TypeKind,
    /// A finish-colored function pushes nothing.
    pub name: String,
}

pub fn ffi_sigs(schemas: &[ModuleSchema<'_>]) -> Vec<Vec<FfiSig>> {
    schemas
        .iter()
        .map(|m| {
            m.functions
                .iter()
                .map(|f| {
                    let vt: aranya_policy_ast::VType = (&f.return_type).into();
                    FfiSig {
                        nargs: f.args.len(),
                        ret: vt.inner.into(),
                        name: format!("{}::{}", m.name, f.name),
                    }
                })
                .collect()
        })
        .collect()
}

pub struct RecIO {
    pub facts: BTreeMap<(Identifier, FactKeyList), FactValueList>,
    pub log: RefCell<Vec<String>>,
    pub sigs: Vec<Vec<FfiSig>>,
    pub structs: AutoMap<StructDef>,
    pub enums: AutoMap<EnumDef>,
}

impl RecIO {
    pub fn new(sigs: Vec<Vec<FfiSig>>, structs: AutoMap<StructDef>, enums: AutoMap<EnumDef>) -> Self {
        Self {
            facts: BTreeMap::new(),
            log: RefCell::new(vec![]),
            sigs,
            structs,
            enums,
        }
    }
}

impl<S: Stack> MachineIO<S> for RecIO {
    type QueryIterator = std::vec::IntoIter<QueryItem>;

    fn fact_insert(
        &mut self,
        name: Identifier,
        key: impl IntoIterator<Item = FactKey>,
        value: impl IntoIterator<Item = FactValue>,
    ) -> Result<(), MachineIOError> {
        let key: Vec<_> = key.into_iter().collect();
        let value: Vec<_> = value.into_iter().collect();
        self.log.borrow_mut().push(format!("insert {name} {key:?} {value:?}"));
        if self.facts.contains_key(&(name.clone(), key.clone())) {
            return Err(MachineIOError::FactExists);
        }
        self.facts.insert((name, key), value);
        Ok(())
    }

    fn fact_delete(
        &mut self,
        name: Identifier,
        key: impl IntoIterator<Item = FactKey>,
    ) -> Result<(), MachineIOError> {
        let key: Vec<_> = key.into_iter().collect();
        self.log.borrow_mut().push(format!("delete {name} {key:?}"));
        match self.facts.remove(&(name, key)) {
            Some(_) => Ok(()),
            None => Err(MachineIOError::FactNotFound),
        }
    }

    fn fact_query(
        &self,
        name: Identifier,
        key: impl IntoIterator<Item = FactKey>,
    ) -> Result<Self::QueryIterator, MachineIOError> {
        let key: Vec<_> = key.into_iter().collect();
        self.log.borrow_mut().push(format!("query {name} {key:?}"));
        let v: Vec<QueryItem> = self
            .facts
            .iter()
            .filter(|((n, k), _)| *n == name && k.starts_with(&key))
            .map(|((_, k), v)| Ok((k.clone(), v.clone())))
            .collect();
        Ok(v.into_iter())
    }

    fn effect(
        &mut self,
        name: Identifier,
        fields: impl IntoIterator<Item = KVPair>,
        command: CmdId,
        recalled: bool,
    ) {
        let mut fields: Vec<_> = fields.into_iter().collect();
        fields.sort_by(|a, b| a.key().cmp(b.key()));
        self.log
            .borrow_mut()
            .push(format!("effect {name} {fields:?} cmd={command} recalled={recalled}"));
    }

    fn call(
        &self,
        module: usize,
        procedure: usize,
        stack: &mut S,
        _ctx: &CommandContext,
    ) -> Result<(), MachineError> {
        let Some(m) = self.sigs.get(module) else {
            return Err(MachineError::new(MachineErrorType::FfiModuleNotDefined(module)));
        };
        let Some(sig) = m.get(procedure) else {
            return Err(MachineError::new(MachineErrorType::FfiProcedureNotDefined(
                vals::ident("ffi"),
                procedure,
            )));
        };
        let mut argv = vec![];
        for _ in 0..sig.nargs {
            argv.push(stack.pop_value().map_err(MachineError::new)?);
        }
        argv.reverse();
        let txt = format!("call {} {argv:?}", sig.name);
        // The answer depends only on the call, so both machines under comparison see the same.
        let mut rng = Rng::new(hash_of(&txt));
        self.log.borrow_mut().push(txt);
        let defs = Defs { structs: &self.structs, enums: &self.enums };
        match vals::gen_value(&mut rng, &sig.ret, &defs, 0) {
            Some(v) => stack.push_value(v).map_err(MachineError::new)?,
            None => {
                return Err(MachineError::new(MachineErrorType::Unknown(
                    "harness cannot build the FFI return value".into(),
                )));
            }
        }
        Ok(())
    }
}

/// Arbitrary, seeded I/O behaviour.
pub struct ChaosIO {
    pub rng: RefCell<Rng>,
    pub ops: RefCell<u64>,
}

impl ChaosIO {
    pub fn new(rng: Rng) -> Self {
        Self { rng: RefCell::new(rng), ops: RefCell::new(0) }
    }

    fn io_err(rng: &mut Rng) -> MachineIOError {
        match rng.below(3) {
            0 => MachineIOError::FactExists,
            1 => MachineIOError::FactNotFound,
            _ => MachineIOError::Internal,
        }
    }

    fn machine_err(rng: &mut Rng) -> MachineError {
        MachineError::new(match rng.below(8) {
            0 => MachineErrorType::StackUnderflow,
            1 => MachineErrorType::StackOverflow,
            2 => MachineErrorType::IntegerOverflow,
            3 => MachineErrorType::IO(Self::io_err(rng)),
            4 => MachineErrorType::FfiModuleNotDefined(rng.usize(5)),
            5 => MachineErrorType::Unknown("chaos".into()),
            6 => MachineErrorType::InvalidInstruction,
            _ => MachineErrorType::invalid_type("a", "b", "chaos"),
        })
    }
}

impl<S: Stack> MachineIO<S> for ChaosIO {
    type QueryIterator = std::vec::IntoIter<QueryItem>;

    fn fact_insert(
        &mut self,
        _name: Identifier,
        key: impl IntoIterator<Item = FactKey>,
        value: impl IntoIterator<Item = FactValue>,
    ) -> Result<(), MachineIOError> {
        *self.ops.borrow_mut() += 1;
        let _ = key.into_iter().count();
        let _ = value.into_iter().count();
        let mut rng = self.rng.borrow_mut();
        if rng.chance(1, 4) { Err(Self::io_err(&mut rng)) } else { Ok(()) }
    }

    fn fact_delete(
        &mut self,
        _name: Identifier,
        key: impl IntoIterator<Item = FactKey>,
    ) -> Result<(), MachineIOError> {
        *self.ops.borrow_mut() += 1;
        let _ = key.into_iter().count();
        let mut rng = self.rng.borrow_mut();
        if rng.chance(1, 4) { Err(Self::io_err(&mut rng)) } else { Ok(()) }
    }

    fn fact_query(
        &self,
        name: Identifier,
        key: impl IntoIterator<Item = FactKey>,
    ) -> Result<Self::QueryIterator, MachineIOError> {
        *self.ops.borrow_mut() += 1;
        let key: Vec<_> = key.into_iter().collect();
        let mut rng = self.rng.borrow_mut();
        if rng.chance(1, 6) {
            return Err(Self::io_err(&mut rng));
        }
        let n = rng.usize(5);
        let mut out = vec![];
        for _ in 0..n {
            if rng.chance(1, 6) {
                out.push(Err(Self::io_err(&mut rng)));
                continue;
            }
            // Keys: sometimes an extension of the queried prefix (a plausible answer),
            // sometimes unrelated.
            let mut k: FactKeyList = if rng.bool() { key.clone() } else { vec![] };
            for _ in 0..rng.usize(3) {
                k.push(FactKey::new(vals::gen_name(&mut rng), vals::gen_hashable(&mut rng)));
            }
            let mut v: FactValueList = vec![];
            for _ in 0..rng.usize(4) {
                v.push(FactValue::new(vals::gen_name(&mut rng), vals::gen_any_value(&mut rng, 1)));
            }
            // Occasionally shadow the query variable / well-known names.
            if rng.chance(1, 8) {
                v.push(FactValue::new(name.clone(), Value::Int(1)));
            }
            out.push(Ok((k, v)));
        }
        Ok(out.into_iter())
    }

    fn effect(
        &mut self,
        _name: Identifier,
        fields: impl IntoIterator<Item = KVPair>,
        _command: CmdId,
        _recalled: bool,
    ) {
        *self.ops.borrow_mut() += 1;
        let _ = fields.into_iter().count();
    }

    fn call(
        &self,
        _module: usize,
        _procedure: usize,
        stack: &mut S,
        _ctx: &CommandContext,
    ) -> Result<(), MachineError> {
        *self.ops.borrow_mut() += 1;
        let mut rng = self.rng.borrow_mut();
        if rng.chance(1, 5) {
            return Err(Self::machine_err(&mut rng));
        }
        for _ in 0..rng.usize(4) {
            let _ = stack.pop_value();
        }
        let pushes = if rng.chance(1, 40) { 120 } else { rng.usize(3) };
        for _ in 0..pushes {
            if stack.push_value(vals::gen_any_value(&mut rng, 0)).is_err() {
                break;
            }
        }
        Ok(())
    }
}
