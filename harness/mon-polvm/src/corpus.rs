//! The repository's own policy corpus (read at run time from the tree under test), a crude
//! policy tokenizer, grammar-aware mutators, and a generator of small ill-typed / ill-scoped
//! programs.

use std::{
    fs,
    ops::Range,
    path::{Path, PathBuf},
};

use vcore::Rng;

use crate::vals::ps;

pub const MAX_INPUT: usize = 4096;

#[derive(Clone, Debug)]
pub struct Doc {
    pub path: String,
    pub text: String,
    /// Markdown document with front matter (else bare policy source).
    pub md: bool,
}

fn walk(dir: &Path, out: &mut Vec<PathBuf>) {
    let Ok(rd) = fs::read_dir(dir) else { return };
    let mut entries: Vec<_> = rd.filter_map(|e| e.ok()).map(|e| e.path()).collect();
    entries.sort();
    for p in entries {
        let name = p.file_name().and_then(|n| n.to_str()).unwrap_or("");
        if p.is_dir() {
            if matches!(name, "target" | ".git" | "node_modules" | "snapshots") {
                continue;
            }
            walk(&p, out);
        } else {
            out.push(p);
        }
    }
}

const TOP_KEYWORDS: &[&str] = &[
    "use", "fact", "immutable", "action", "ephemeral", "effect", "struct", "enum", "command",
    "function", "finish", "let",
];

fn looks_like_policy(s: &str) -> bool {
    ["action ", "command ", "function ", "fact ", "struct ", "enum ", "effect "]
        .iter()
        .any(|k| s.contains(k))
}

/// Raw string literals (`r#"..."#`) in Rust test sources that look like policy source.
fn raw_strings(src: &str) -> Vec<String> {
    let mut out = vec![];
    let mut rest = src;
    while let Some(i) = rest.find("r#\"") {
        let body = &rest[i + 3..];
        let Some(j) = body.find("\"#") else { break };
        let lit = &body[..j];
        if lit.len() > 20 && lit.len() < 20_000 && looks_like_policy(lit) {
            out.push(lit.to_string());
        }
        rest = &body[j + 2..];
    }
    out
}

/// All policy documents found under `<repo>/crates`: `*.policy`, markdown policy documents, and
/// policy snippets embedded in the policy crates' Rust tests.
pub fn load_corpus(repo: &Path) -> Vec<Doc> {
    let mut files = vec![];
    walk(&repo.join("crates"), &mut files);
    let mut docs = vec![];
    for p in files {
        let rel = p.strip_prefix(repo).unwrap_or(&p).display().to_string();
        let ext = p.extension().and_then(|e| e.to_str()).unwrap_or("");
        match ext {
            "policy" => {
                if let Ok(text) = fs::read_to_string(&p) {
                    docs.push(Doc { path: rel, text, md: false });
                }
            }
            "md" => {
                if let Ok(text) = fs::read_to_string(&p)
                    && (text.contains("policy-version") || text.contains("```policy"))
                {
                    docs.push(Doc { path: rel, text, md: true });
                }
            }
            "rs" => {
                let interesting = ["aranya-policy-vm", "aranya-policy-compiler", "aranya-policy-lang", "aranya-policy-ifgen", "aranya-runtime", "aranya-model"]
                    .iter()
                    .any(|c| rel.contains(c))
                    && (rel.contains("test") || rel.contains("/bits/") || rel.contains("serialize.rs"));
                if interesting && let Ok(text) = fs::read_to_string(&p) {
                    for (k, lit) in raw_strings(&text).into_iter().enumerate() {
                        docs.push(Doc { path: format!("{rel}#{k}"), text: lit, md: false });
                    }
                }
            }
            _ => {}
        }
    }
    docs
}

/// Concatenation of the top-level ```policy code blocks of a markdown document.
pub fn extract_policy(md: &str) -> String {
    let mut out = String::new();
    let mut inside = false;
    for line in md.lines() {
        let t = line.trim_end();
        if !inside {
            if t.starts_with("```policy") {
                inside = true;
            }
        } else if t.starts_with("```") {
            inside = false;
        } else {
            out.push_str(line);
            out.push('\n');
        }
    }
    out
}

pub fn wrap_md(policy: &str) -> String {
    format!("---\npolicy-version: 2\n---\n\n# Doc\n\n```policy\n{policy}\n```\n")
}

// ---------------------------------------------------------------------------------- tokens

#[derive(Clone, Copy, Debug, PartialEq, Eq)]
pub enum Tk {
    Space,
    Comment,
    Word,
    Number,
    Str,
    Punct,
}

pub fn tokenize(s: &str) -> Vec<(Tk, Range<usize>)> {
    let b = s.as_bytes();
    let mut out = vec![];
    let mut i = 0;
    while i < b.len() {
        let start = i;
        let c = b[i];
        let kind;
        if c.is_ascii_whitespace() {
            while i < b.len() && b[i].is_ascii_whitespace() {
                i += 1;
            }
            kind = Tk::Space;
        } else if c == b'/' && b.get(i + 1) == Some(&b'/') {
            while i < b.len() && b[i] != b'\n' {
                i += 1;
            }
            kind = Tk::Comment;
        } else if c == b'/' && b.get(i + 1) == Some(&b'*') {
            i += 2;
            while i < b.len() && !(b[i] == b'*' && b.get(i + 1) == Some(&b'/')) {
                i += 1;
            }
            i = (i + 2).min(b.len());
            kind = Tk::Comment;
        } else if c.is_ascii_alphabetic() || c == b'_' {
            while i < b.len() && (b[i].is_ascii_alphanumeric() || b[i] == b'_') {
                i += 1;
            }
            kind = Tk::Word;
        } else if c.is_ascii_digit() {
            while i < b.len() && b[i].is_ascii_digit() {
                i += 1;
            }
            kind = Tk::Number;
        } else if c == b'"' {
            i += 1;
            while i < b.len() && b[i] != b'"' {
                if b[i] == b'\\' {
                    i += 1;
                }
                i += 1;
            }
            i = (i + 1).min(b.len());
            kind = Tk::Str;
        } else {
            let three = s.get(i..i + 3);
            let two = s.get(i..i + 2);
            if matches!(three, Some("...") | Some("```") | Some("---")) {
                i += 3;
            } else if matches!(two, Some("=>") | Some("==") | Some("!=") | Some(">=") | Some("<=") | Some("&&") | Some("||") | Some("::")) {
                i += 2;
            } else {
                // one (possibly multi-byte) character
                i += 1;
                while i < b.len() && !s.is_char_boundary(i) {
                    i += 1;
                }
            }
            kind = Tk::Punct;
        }
        // Never split inside a character.
        while i < b.len() && !s.is_char_boundary(i) {
            i += 1;
        }
        out.push((kind, start..i));
    }
    out
}

/// Split policy source into top-level items (by keyword at nesting depth 0).
pub fn top_items(src: &str) -> Vec<String> {
    let toks = tokenize(src);
    let mut depth = 0i32;
    let mut cuts = vec![];
    let mut prev_modifier = false;
    let mut last_sig = "";
    for (k, r) in &toks {
        let t = &src[r.clone()];
        match k {
            Tk::Punct => match t {
                "{" | "[" | "(" => depth += 1,
                "}" | "]" | ")" => depth -= 1,
                _ => {}
            },
            // `function f() struct S {` : a type keyword after `)` does not start an item
            Tk::Word if depth == 0 && TOP_KEYWORDS.contains(&t) && !matches!(last_sig, ")" | "]" | "," | "=") => {
                if !prev_modifier {
                    cuts.push(r.start);
                }
                prev_modifier = matches!(t, "finish" | "ephemeral" | "immutable");
                last_sig = t;
                continue;
            }
            Tk::Space | Tk::Comment => continue,
            _ => {}
        }
        last_sig = t;
        prev_modifier = false;
    }
    let mut items = vec![];
    for (i, &c) in cuts.iter().enumerate() {
        let end = cuts.get(i + 1).copied().unwrap_or(src.len());
        items.push(src[c..end].to_string());
    }
    items
}

/// A version of the document that fits in `MAX_INPUT` bytes: whole if small enough, else a
/// random selection of its top-level items (re-wrapped as markdown when `md`).
pub fn bounded(rng: &mut Rng, doc: &Doc) -> (String, bool) {
    if doc.text.len() <= MAX_INPUT - 64 {
        return (doc.text.clone(), doc.md);
    }
    let policy = if doc.md { extract_policy(&doc.text) } else { doc.text.clone() };
    let items = top_items(&policy);
    if items.is_empty() {
        let mut cut = MAX_INPUT - 64;
        while !doc.text.is_char_boundary(cut) {
            cut -= 1;
        }
        return (doc.text[..cut].to_string(), doc.md);
    }
    let budget = MAX_INPUT - 200;
    let mut out = String::new();
    // Keep type-like items with priority so more selections compile, then random others.
    let mut order: Vec<usize> = (0..items.len()).collect();
    rng.shuffle(&mut order);
    order.sort_by_key(|&i| {
        let it = items[i].trim_start();
        if it.starts_with("use") || it.starts_with("struct") || it.starts_with("enum") || it.starts_with("fact") || it.starts_with("immutable") || it.starts_with("effect") {
            0
        } else {
            1
        }
    });
    let mut chosen = vec![];
    let mut used = 0;
    for i in order {
        if used + items[i].len() <= budget {
            used += items[i].len();
            chosen.push(i);
        }
    }
    chosen.sort();
    for i in chosen {
        out.push_str(&items[i]);
    }
    if doc.md { (wrap_md(&out), true) } else { (out, false) }
}

// ---------------------------------------------------------------------------------- mutation

const KEYWORDS: &[&str] = &[
    "action", "command", "function", "finish", "fact", "effect", "struct", "enum", "let", "check",
    "match", "if", "else", "return", "recall", "publish", "emit", "create", "update", "delete",
    "map", "as", "query", "exists", "this", "envelope", "Some", "None", "Ok", "Err", "true",
    "false", "int", "bool", "string", "bytes", "id", "option", "optional", "result", "unit", "Unit",
    "seal", "open", "policy", "fields", "attributes", "use", "immutable", "ephemeral", "dynamic",
    "to", "is", "or", "substruct", "todo()", "count_up_to", "at_least", "at_most", "exactly",
    "debug_assert(", "test_fail(", "serialize", "deserialize", "unwrap", "check_unwrap", "add",
    "sub", "saturating_add", "saturating_sub", "_", "=>", "::", "...", "?", "+",
];

const UNICODE: &[&str] = &["é", "ß", "→", "𝄞", "\u{200b}", "\u{feff}", "\u{2028}", "ｆ", "\u{202e}", "\u{0301}", "日本"];

pub const MUTATIONS: &[&str] = &[
    "tok-delete", "tok-dup", "tok-swap", "brace-insert", "brace-delete", "keyword-subst", "unicode",
    "nul", "crlf", "long-ident", "front-matter", "fence", "number", "string-escape", "span-delete",
    "splice",
];

fn long_ident(rng: &mut Rng, room: usize) -> String {
    let n = match rng.below(4) {
        0 => 63,
        1 => 64,
        2 => 65,
        _ => room.min(rng.urange(200, 3500)),
    }
    .min(room.max(1));
    let mut s = String::from("z");
    while s.len() < n {
        s.push((b'a' + rng.below(26) as u8) as char);
    }
    s
}

fn corrupt_front_matter(rng: &mut Rng, s: &str) -> String {
    let variants: &[&str] = &[
        "---\npolicy-version: 1\n---\n",
        "---\npolicy-version: 3\n---\n",
        "---\npolicy-version: \"2\"\n---\n",
        "---\npolicy-version: [2]\n---\n",
        "---\npolicy-version: {a: 2}\n---\n",
        "---\npolicy_version: 2\n---\n",
        "---\npolicy-version: 2\npolicy-version: 2\n---\n",
        "---\npolicy-version: 2\n",
        "---\n---\n",
        "",
        "\n---\npolicy-version: 2\n---\n",
        "---\r\npolicy-version: 2\r\n---\r\n",
        "---\npolicy-version: 2\nx: &a [*a]\n---\n",
        "---\npolicy-version: !!binary 2\n---\n",
        "---\n\tpolicy-version: 2\n---\n",
        "+++\npolicy-version = 2\n+++\n",
        "---\npolicy-version: 2\n...\n",
        "---\npolicy-version: 99999999999999999999999\n---\n",
        "---\npolicy-version: ~\n---\n",
        "---\n- policy-version: 2\n---\n",
    ];
    let body = if s.starts_with("---") {
        match s[3..].find("\n---") {
            Some(i) => {
                let after = 3 + i + 4;
                s.get(after..).unwrap_or("").trim_start_matches(['\r', '\n']).to_string()
            }
            None => s.to_string(),
        }
    } else {
        s.to_string()
    };
    format!("{}{}", ps(rng, variants), body)
}

fn corrupt_fence(rng: &mut Rng, s: &str) -> String {
    let subs: &[(&str, &str)] = &[
        ("```policy", "~~~policy"),
        ("```policy", "````policy"),
        ("```policy", "   ```policy"),
        ("```policy", "\t```policy"),
        ("```policy", "``` policy"),
        ("```policy", "```policy extra info"),
        ("```policy", "```policy\r"),
        ("```policy", "> ```policy"),
        ("```policy", "- ```policy"),
        ("```policy", "1. ```policy"),
        ("```policy", "```Policy"),
        ("```policy", "```policy```policy"),
        ("\n```\n", "\n"),
        ("\n```\n", "\n````\n"),
        ("\n```\n", "\n```\n```policy\n```\n```policy\nstruct Q { a int }\n```\n"),
        ("```policy\n", "```policy\n\n\n"),
        ("```policy\n", "<!-- x -->\n```policy\n"),
        ("```policy\n", "| a | b |\n|---|---|\n| c | d |\n\n```policy\n"),
        ("```policy\n", "* item\n\n    ```policy\n"),
    ];
    let (from, to) = *rng.pick(subs);
    if rng.bool() {
        s.replacen(from, to, 1)
    } else {
        s.replace(from, to)
    }
}

/// Apply one named mutation. Returns `None` when it does not apply to this text.
pub fn mutate_one(rng: &mut Rng, s: &str, kind: &str, donor: &str) -> Option<String> {
    let toks = tokenize(s);
    let sig: Vec<usize> = toks
        .iter()
        .enumerate()
        .filter(|(_, (k, _))| !matches!(k, Tk::Space | Tk::Comment))
        .map(|(i, _)| i)
        .collect();
    if sig.is_empty() {
        return None;
    }
    let pick = |rng: &mut Rng| toks[*rng.pick(&sig)].1.clone();
    let splice = |r: Range<usize>, with: &str| format!("{}{}{}", &s[..r.start], with, &s[r.end..]);
    Some(match kind {
        "tok-delete" => splice(pick(rng), ""),
        "tok-dup" => {
            let r = pick(rng);
            let t = s[r.clone()].to_string();
            splice(r.end..r.end, &format!(" {t}"))
        }
        "tok-swap" => {
            let a = pick(rng);
            let b = pick(rng);
            let (a, b) = if a.start <= b.start { (a, b) } else { (b, a) };
            if a.end > b.start {
                return None;
            }
            format!("{}{}{}{}{}", &s[..a.start], &s[b.clone()], &s[a.end..b.start], &s[a.clone()], &s[b.end..])
        }
        "brace-insert" => {
            let r = pick(rng);
            splice(r.start..r.start, ps(rng, &["{", "}", "(", ")", "[", "]", "{ {", "} }", "\"", "/*", "*/"]))
        }
        "brace-delete" => {
            let braces: Vec<_> = toks
                .iter()
                .filter(|(k, r)| *k == Tk::Punct && matches!(&s[r.clone()], "{" | "}" | "(" | ")" | "[" | "]"))
                .map(|(_, r)| r.clone())
                .collect();
            if braces.is_empty() {
                return None;
            }
            splice(rng.pick(&braces).clone(), "")
        }
        "keyword-subst" => {
            let words: Vec<_> = toks.iter().filter(|(k, _)| *k == Tk::Word).map(|(_, r)| r.clone()).collect();
            if words.is_empty() {
                return None;
            }
            splice(rng.pick(&words).clone(), ps(rng, KEYWORDS))
        }
        "unicode" => {
            let r = pick(rng);
            let u = ps(rng, UNICODE);
            match rng.below(3) {
                0 => splice(r.clone(), u),
                1 => splice(r.start..r.start, u),
                _ => {
                    // inside the token
                    let mut k = r.start + rng.usize(r.len().max(1));
                    while !s.is_char_boundary(k) {
                        k -= 1;
                    }
                    splice(k..k, u)
                }
            }
        }
        "nul" => {
            let r = pick(rng);
            let mut k = r.start + rng.usize(r.len() + 1);
            while !s.is_char_boundary(k) {
                k -= 1;
            }
            splice(k..k, "\0")
        }
        "crlf" => match rng.below(3) {
            0 => s.replace('\n', "\r\n"),
            1 => s.replace('\n', "\r"),
            _ => s.replacen('\n', "\r\n", 1 + rng.usize(3)),
        },
        "long-ident" => {
            let words: Vec<_> = toks.iter().filter(|(k, _)| *k == Tk::Word).map(|(_, r)| r.clone()).collect();
            if words.is_empty() {
                return None;
            }
            let room = MAX_INPUT.saturating_sub(s.len() + 8);
            if room < 70 {
                return None;
            }
            let r = rng.pick(&words).clone();
            let old = s[r.clone()].to_string();
            let new = long_ident(rng, room);
            if rng.bool() {
                // rename every occurrence consistently (keeps the program well-scoped)
                let mut out = String::new();
                let mut last = 0;
                let mut grown = 0;
                for (k, r) in &toks {
                    if *k == Tk::Word && s[r.clone()] == old && s.len() + grown + new.len() < MAX_INPUT {
                        out.push_str(&s[last..r.start]);
                        out.push_str(&new);
                        last = r.end;
                        grown += new.len();
                    }
                }
                out.push_str(&s[last..]);
                out
            } else {
                splice(r, &new)
            }
        }
        "front-matter" => corrupt_front_matter(rng, s),
        "fence" => {
            if !s.contains("```") {
                return None;
            }
            corrupt_fence(rng, s)
        }
        "number" => {
            let nums: Vec<_> = toks.iter().filter(|(k, _)| *k == Tk::Number).map(|(_, r)| r.clone()).collect();
            let r = if nums.is_empty() { pick(rng) } else { rng.pick(&nums).clone() };
            splice(
                r,
                ps(rng, &["9223372036854775807", "9223372036854775808", "-9223372036854775808", "-9223372036854775809",
                    "99999999999999999999999999", "-0", "00000000000000000000001", "0x10", "1e9", "1_000", "-", "- 1", "--1",
                ]),
            )
        }
        "string-escape" => {
            let strs: Vec<_> = toks.iter().filter(|(k, _)| *k == Tk::Str).map(|(_, r)| r.clone()).collect();
            let lit = ps(rng, &["\"\\x00\"", "\"\\x7f\"", "\"\\x80\"", "\"\\xff\"", "\"\\x4\"", "\"\\x\"", "\"\\xé1\"", "\"\\x1é\"", "\"\\q\"", "\"\\é\"", "\"\\\n\"",
                "\"\\\\\"", "\"\\\"\"", "\"a\\", "\"\\", "\"\n\"", "\"\\n\\n\"", "\"\u{0}\"", "\"é\\x41𝄞\"", "\"\\u{41}\"", "\"\\x41\\x\"", "\"\\𝄞\"",
            ]);
            let r = if strs.is_empty() { pick(rng) } else { rng.pick(&strs).clone() };
            splice(r, lit)
        }
        "span-delete" => {
            let a = pick(rng);
            let b = pick(rng);
            let (lo, hi) = (a.start.min(b.start), a.end.max(b.end));
            splice(lo..hi, "")
        }
        "splice" => {
            // insert a token run from another corpus document
            let dt = tokenize(donor);
            if dt.is_empty() {
                return None;
            }
            let i = rng.usize(dt.len());
            let j = (i + rng.urange(1, 12)).min(dt.len());
            let frag = &donor[dt[i].1.start..dt[j - 1].1.end];
            let r = pick(rng);
            splice(r.end..r.end, &format!(" {frag} "))
        }
        _ => return None,
    })
}

/// 1-3 mutations of a bounded corpus document. Returns the text and the mutation names.
pub fn mutate(rng: &mut Rng, s: &str, md: bool, donor: &str) -> (String, Vec<&'static str>) {
    let mut cur = s.to_string();
    let mut names = vec![];
    let n = 1 + rng.weighted(&[6, 3, 1]);
    for _ in 0..n {
        let kind = loop {
            let k = *rng.pick(MUTATIONS);
            if !md && matches!(k, "front-matter" | "fence") && rng.chance(9, 10) {
                continue;
            }
            break k;
        };
        if let Some(next) = mutate_one(rng, &cur, kind, donor)
            && next.len() <= MAX_INPUT
        {
            cur = next;
            names.push(kind);
        }
    }
    (cur, names)
}

// ---------------------------------------------------------------------------------- generator

/// Generator of small programs. With `wrong == 0` it is lightly type-directed (so a good share
/// compiles and reaches lowering); otherwise every choice is *deliberately* broken with that
/// probability: wrong types, undefined names, duplicate definitions, recursion, wrong arity,
/// finish-only statements outside finish, pure-only statements inside finish, misplaced
/// publish/recall/return, cyclic structs, missing command blocks.
pub struct ProgGen<'a> {
    rng: &'a mut Rng,
    structs: Vec<(String, Vec<(String, String)>)>,
    enums: Vec<(String, Vec<String>)>,
    facts: Vec<(String, Vec<(String, String)>, Vec<(String, String)>)>,
    effects: Vec<String>,
    commands: Vec<String>,
    /// name, parameter types, return type
    functions: Vec<(String, Vec<String>, String)>,
    finish_functions: Vec<(String, Vec<String>)>,
    actions: Vec<(String, Vec<String>)>,
    globals: Vec<(String, String)>,
    locals: Vec<(String, String)>,
    cur_ret: Option<String>,
    /// inside a finish block / finish function only simple expressions are allowed
    in_finish: bool,
    /// probability (percent) of deliberately breaking a choice
    pub wrong: u64,
    pub tags: Vec<&'static str>,
}

const BASE_TYPES: &[&str] = &["int", "bool", "string", "bytes", "id"];

impl<'a> ProgGen<'a> {
    pub fn new(rng: &'a mut Rng) -> Self {
        let wrong = *rng.pick(&[0u64, 0, 3, 10, 25]);
        Self {
            rng,
            structs: vec![],
            enums: vec![],
            facts: vec![],
            effects: vec![],
            commands: vec![],
            functions: vec![],
            finish_functions: vec![],
            actions: vec![],
            globals: vec![],
            locals: vec![],
            cur_ret: None,
            in_finish: false,
            wrong,
            tags: vec![],
        }
    }

    fn bad(&mut self) -> bool {
        self.wrong > 0 && self.rng.below(100) < self.wrong
    }

    fn fresh(&mut self, prefix: &str, n: usize) -> String {
        if self.bad() {
            self.tags.push("dup-or-keyword-name");
            return (ps(self.rng, &["S0", "E0", "F0", "f0", "a0", "C0", "g0", "this", "envelope", "int", "x", "Some", "query"])).to_string();
        }
        format!("{prefix}{n}")
    }

    fn ty(&mut self, depth: u32) -> String {
        let k = if depth >= 2 { self.rng.below(7) } else { self.rng.below(11) };
        match k {
            0..=4 => (ps(self.rng, BASE_TYPES)).to_string(),
            5 => {
                if self.bad() {
                    format!("struct {}", ps(self.rng, &["S0", "S1", "S9", "C0", "Eff0", "F0"]))
                } else if self.structs.is_empty() {
                    "int".into()
                } else {
                    format!("struct {}", self.rng.pick(&self.structs).0.clone())
                }
            }
            6 => {
                if self.bad() {
                    format!("enum {}", ps(self.rng, &["E0", "E9", "S0"]))
                } else if self.enums.is_empty() {
                    "string".into()
                } else {
                    format!("enum {}", self.rng.pick(&self.enums).0.clone())
                }
            }
            7 => format!("option[{}]", self.ty(depth + 1)),
            8 if self.bad() => format!("optional {}", self.ty(depth + 1)),
            8 => "int".into(),
            9 if self.bad() => "unit".into(),
            9 => "bool".into(),
            _ => format!("result[{}, {}]", self.ty(depth + 1), self.ty(depth + 1)),
        }
    }

    /// Types a `let` can be given a value of without outside help.
    fn let_ty(&mut self) -> String {
        match self.rng.below(8) {
            0 | 1 | 2 => "int".into(),
            3 | 4 => "bool".into(),
            5 => "string".into(),
            6 if !self.enums.is_empty() => format!("enum {}", self.rng.pick(&self.enums).0.clone()),
            6 => "option[int]".into(),
            _ if !self.structs.is_empty() => format!("struct {}", self.rng.pick(&self.structs).0.clone()),
            _ => "option[bool]".into(),
        }
    }

    /// `if x {` would parse `x {` as a struct literal: parenthesise bare names.
    fn cond(&mut self, ty: &str, depth: u32) -> String {
        let c = self.typed(ty, depth);
        if c.chars().all(|ch| ch.is_ascii_alphanumeric() || ch == '_') && !self.bad() { format!("({c})") } else { c }
    }

    fn push_local(&mut self, name: &str, ty: &str) {
        self.locals.push((name.to_string(), ty.to_string()));
    }

    fn name_in_scope(&mut self) -> String {
        let mut pool: Vec<String> = self.locals.iter().map(|l| l.0.clone()).collect();
        pool.extend(self.globals.iter().map(|g| g.0.clone()));
        if pool.is_empty() || self.bad() {
            self.tags.push("maybe-undefined-name");
            return (ps(self.rng, &["x", "y", "zz", "this", "envelope", "g0", "undefined_name"])).to_string();
        }
        self.rng.pick(&pool).clone()
    }

    fn local_of(&mut self, ty: &str) -> Option<String> {
        let pool: Vec<String> = self
            .locals
            .iter()
            .chain(self.globals.iter())
            .filter(|l| l.1 == ty)
            .map(|l| l.0.clone())
            .collect();
        if pool.is_empty() { None } else { Some(self.rng.pick(&pool).clone()) }
    }

    /// An expression of type `want` (best effort; falls back to the untyped generator).
    pub fn typed(&mut self, want: &str, depth: u32) -> String {
        if self.bad() {
            self.tags.push("type-broken");
            return self.expr(depth);
        }
        if depth < 3
            && self.rng.chance(1, 3)
            && let Some(l) = self.local_of(want)
        {
            return l;
        }
        let deep = depth >= 3 || self.in_finish;
        match want {
            "int" => match if deep { self.rng.below(2) } else { self.rng.below(12) } {
                0 | 1 | 2 => self.rng.range(0, 20).to_string(),
                3 => self.local_of("int").unwrap_or_else(|| "7".into()),
                4 => format!("{}({}, {})", ps(self.rng, &["saturating_add", "saturating_sub"]), self.typed("int", depth + 1), self.typed("int", depth + 1)),
                5 => format!("if {} {{ : {} }} else {{ : {} }}", self.cond("bool", depth + 1), self.typed("int", depth + 1), self.typed("int", depth + 1)),
                6 => format!("match {} {{ 0 => {} 1 | 2 => {} _ => {} }}", self.cond("int", depth + 1), self.typed("int", depth + 1), self.typed("int", depth + 1), self.typed("int", depth + 1)),
                7 => {
                    let saved = self.locals.len();
                    let e = self.typed("int", depth + 1);
                    let name = format!("t{}", self.locals.len());
                    self.push_local(&name, "int");
                    let r = self.typed("int", depth + 1);
                    self.locals.truncate(saved);
                    format!("{{ let {name} = {e} : {r} }}")
                }
                8 => self.call_returning("int", depth).unwrap_or_else(|| "3".into()),
                9 => format!("({}({}, {}) or 0)", ps(self.rng, &["add", "sub"]), self.typed("int", depth + 1), self.typed("int", depth + 1)),
                10 => format!("({} or {})", self.typed("option[int]", depth + 1), self.typed("int", depth + 1)),
                _ => match self.field_of("int") {
                    Some(e) => e,
                    None => "11".into(),
                },
            },
            "bool" => match if deep { self.rng.below(2) } else { self.rng.below(11) } {
                0 | 1 => (ps(self.rng, &["true", "false"])).to_string(),
                2 | 3 => format!("({} {} {})", self.typed("int", depth + 1), ps(self.rng, &[">", "<", ">=", "<=", "==", "!="]), self.typed("int", depth + 1)),
                4 => format!("!{}", self.typed("bool", depth + 1)),
                5 => format!("({} {} {})", self.typed("bool", depth + 1), ps(self.rng, &["&&", "||", "=="]), self.typed("bool", depth + 1)),
                6 => format!("({} is {})", self.typed("option[int]", depth + 1), ps(self.rng, &["Some", "None"])),
                7 if !self.facts.is_empty() => format!("exists {}", self.fact_literal(depth, true)),
                8 if !self.facts.is_empty() => {
                    // boundary limits now and then (the counters add one to the limit)
                    let lim = if self.rng.chance(1, 6) { ps(self.rng, &["9223372036854775807", "9223372036854775806", "4294967296"]).to_string() } else { self.rng.range(1, 3).to_string() };
                    format!("{} {} {}", ps(self.rng, &["at_least", "at_most", "exactly"]), lim, self.fact_literal(depth, true))
                }
                9 => format!("({} == {})", self.typed("string", depth + 1), self.typed("string", depth + 1)),
                _ => self.call_returning("bool", depth).unwrap_or_else(|| "true".into()),
            },
            "string" => match self.rng.below(3) {
                0 => self.local_of("string").unwrap_or_else(|| "\"s\"".into()),
                _ => (ps(self.rng, &["\"a\"", "\"\"", "\"x\\n\"", "\"\\x41\"", "\"long string literal\""])).to_string(),
            },
            "unit" => "Unit".into(),
            _ if want.starts_with("struct ") => {
                let name = &want[7..];
                match self.structs.iter().find(|s| s.0 == name).cloned() {
                    Some((n, fields)) if depth < 3 => {
                        let parts: Vec<String> = fields.iter().map(|(f, t)| format!("{f}: {}", self.typed(t, depth + 1))).collect();
                        format!("{n} {{ {} }}", parts.join(", "))
                    }
                    _ => self.local_of(want).unwrap_or_else(|| self.expr(3)),
                }
            }
            _ if want.starts_with("enum ") => {
                let name = &want[5..];
                match self.enums.iter().find(|e| e.0 == name).cloned() {
                    Some((n, vs)) => format!("{n}::{}", self.rng.pick(&vs)),
                    None => self.expr(3),
                }
            }
            _ if want.starts_with("option[") && want.ends_with(']') => {
                let inner = want[7..want.len() - 1].to_string();
                if self.rng.chance(1, 3) { "None".into() } else { format!("Some({})", self.typed(&inner, depth + 1)) }
            }
            _ if want.starts_with("optional ") => {
                let inner = want[9..].to_string();
                if self.rng.chance(1, 3) { "None".into() } else { format!("Some({})", self.typed(&inner, depth + 1)) }
            }
            _ if want.starts_with("result[") && want.ends_with(']') => {
                // split at the top-level comma
                let body = &want[7..want.len() - 1];
                let mut lvl = 0;
                let mut cut = None;
                for (i, c) in body.char_indices() {
                    match c {
                        '[' => lvl += 1,
                        ']' => lvl -= 1,
                        ',' if lvl == 0 => {
                            cut = Some(i);
                            break;
                        }
                        _ => {}
                    }
                }
                match cut {
                    Some(i) => {
                        let (ok, err) = (body[..i].trim().to_string(), body[i + 1..].trim().to_string());
                        if self.rng.bool() { format!("Ok({})", self.typed(&ok, depth + 1)) } else { format!("Err({})", self.typed(&err, depth + 1)) }
                    }
                    None => self.expr(depth),
                }
            }
            // id, bytes: no literals; only names can provide them
            _ => match self.local_of(want) {
                Some(l) => l,
                None => {
                    self.tags.push("no-value-of-type");
                    self.expr(3)
                }
            },
        }
    }

    /// `x.f` for a struct-typed name with a field of type `ty`.
    fn field_of(&mut self, ty: &str) -> Option<String> {
        let mut cands = vec![];
        for (name, lt) in self.locals.iter().chain(self.globals.iter()) {
            if let Some(sn) = lt.strip_prefix("struct ")
                && let Some((_, fields)) = self.structs.iter().find(|s| s.0 == sn)
            {
                for (f, t) in fields {
                    if t == ty {
                        cands.push(format!("{name}.{f}"));
                    }
                }
            }
        }
        if cands.is_empty() { None } else { Some(self.rng.pick(&cands).clone()) }
    }

    fn call_returning(&mut self, ty: &str, depth: u32) -> Option<String> {
        let cands: Vec<(String, Vec<String>, String)> = self.functions.iter().filter(|f| f.2 == ty).cloned().collect();
        if cands.is_empty() {
            if ty == "bool" && self.rng.bool() {
                return Some(format!("test::doit({})", self.typed("int", depth + 1)));
            }
            return None;
        }
        let (name, params, _) = self.rng.pick(&cands).clone();
        let args: Vec<String> = params.iter().map(|t| self.typed(t, depth + 1)).collect();
        Some(format!("{name}({})", args.join(", ")))
    }

    fn fact_literal(&mut self, depth: u32, allow_bind: bool) -> String {
        if self.facts.is_empty() || self.bad() {
            let e = self.expr(depth + 1);
            return format!("{}[k: {}]", ps(self.rng, &["F0", "F9", "S0"]), e);
        }
        let (name, keys, vals) = self.rng.pick(&self.facts).clone();
        let mut s = format!("{name}[");
        // binds must trail: once a key is bound all following ones are
        let mut binding = false;
        let mut first = true;
        for (k, t) in keys.iter() {
            if self.bad() {
                self.tags.push("fact-key-dropped");
                continue;
            }
            if !first {
                s.push_str(", ");
            }
            first = false;
            if allow_bind && !binding && self.rng.chance(1, 4) {
                binding = true;
            }
            let v = if binding { "?".to_string() } else { self.typed(t, depth + 1) };
            s.push_str(&format!("{k}: {v}"));
        }
        s.push(']');
        if !allow_bind || self.rng.chance(1, 2) {
            s.push_str("=>{");
            for (i, (k, t)) in vals.iter().enumerate() {
                if i > 0 {
                    s.push_str(", ");
                }
                let v = if allow_bind && self.rng.chance(1, 2) { "?".to_string() } else { self.typed(t, depth + 1) };
                s.push_str(&format!("{k}: {v}"));
            }
            s.push('}');
        }
        s
    }

    fn struct_literal(&mut self, depth: u32) -> String {
        if self.structs.is_empty() || self.bad() {
            let e = self.expr(depth + 1);
            return format!("{} {{ a: {} }}", ps(self.rng, &["S0", "S9", "C0", "Eff0", "E0"]), e);
        }
        let (name, fields) = self.rng.pick(&self.structs).clone();
        let mut parts = vec![];
        for (f, t) in &fields {
            if self.bad() {
                self.tags.push("struct-field-dropped");
                continue;
            }
            let e = self.typed(t, depth + 1);
            parts.push(format!("{f}: {e}"));
        }
        if self.bad() {
            parts.push(format!("...{}", self.name_in_scope()));
        }
        if self.bad() {
            let e = self.expr(depth + 1);
            parts.push(format!("extra: {e}"));
        }
        format!("{name} {{ {} }}", parts.join(", "))
    }

    fn call(&mut self, depth: u32) -> String {
        let (name, params) = if self.functions.is_empty() || self.bad() {
            ((ps(self.rng, &["f0", "f9", "a0", "ff0", "saturating_add", "add", "unwrap"])).to_string(), vec!["int".to_string(); self.rng.usize(3)])
        } else {
            let f = self.rng.pick(&self.functions).clone();
            (f.0, f.1)
        };
        let mut args: Vec<String> = params.iter().map(|t| self.typed(t, depth + 1)).collect();
        if self.bad() {
            self.tags.push("wrong-arity");
            args.push(self.expr(depth + 1));
        }
        format!("{name}({})", args.join(", "))
    }

    /// An expression of no particular type.
    pub fn expr(&mut self, depth: u32) -> String {
        let k = if depth >= 3 { self.rng.below(9) } else { self.rng.below(40) };
        match k {
            0 => self.rng.range(0, 20).to_string(),
            1 => (ps(self.rng, &["true", "false"])).to_string(),
            2 => (ps(self.rng, &["\"a\"", "\"\"", "\"x\\n\"", "\"\\x41\""])).to_string(),
            3 => "None".into(),
            4 | 5 | 6 => self.name_in_scope(),
            7 => (ps(self.rng, &["this", "envelope", "Unit", "todo()", "test_fail(\"m\")"])).to_string(),
            8 => {
                if self.enums.is_empty() || self.bad() {
                    format!("{}::{}", ps(self.rng, &["E0", "E9", "S0"]), ps(self.rng, &["A", "B", "Z"]))
                } else {
                    let (n, vs) = self.rng.pick(&self.enums).clone();
                    format!("{n}::{}", self.rng.pick(&vs))
                }
            }
            9 => format!("Some({})", self.expr(depth + 1)),
            10 => format!("Ok({})", self.expr(depth + 1)),
            11 => format!("Err({})", self.expr(depth + 1)),
            12 => format!("({} {} {})", self.expr(depth + 1), ps(self.rng, &["+", "-", ">", "<", ">=", "<=", "==", "!=", "&&", "||", "or"]), self.expr(depth + 1)),
            13 => format!("!{}", self.expr(depth + 1)),
            14 => format!("{} is {}", self.expr(depth + 1), ps(self.rng, &["Some", "None"])),
            15 => format!("{}.{}", self.expr(depth + 1), ps(self.rng, &["a", "b", "c", "x"])),
            16 => self.struct_literal(depth),
            17 | 18 => self.call(depth),
            19 => format!("{}::{}({})", ps(self.rng, &["test", "print", "nomod", "envelope"]), ps(self.rng, &["doit", "print", "nofn", "do_seal"]), self.expr(depth + 1)),
            20 => format!("if {} {{ : {} }} else {{ : {} }}", self.expr(depth + 1), self.expr(depth + 1), self.expr(depth + 1)),
            21 => {
                let scrut = self.expr(depth + 1);
                let mut arms = String::new();
                for _ in 0..self.rng.urange(1, 3) {
                    let p = self.expr(3);
                    let alt = if self.rng.chance(1, 4) { format!(" | {}", self.expr(3)) } else { String::new() };
                    arms.push_str(&format!("{p}{alt} => {} ", self.expr(depth + 1)));
                }
                if !self.bad() {
                    arms.push_str(&format!("_ => {} ", self.expr(depth + 1)));
                }
                format!("match {scrut} {{ {arms}}}")
            }
            22 => {
                let saved = self.locals.len();
                let name = format!("t{}", self.rng.below(4));
                let e = self.expr(depth + 1);
                self.push_local(&name, "?");
                let r = self.expr(depth + 1);
                self.locals.truncate(saved);
                format!("{{ let {name} = {e} : {r} }}")
            }
            23 => format!("query {}", self.fact_literal(depth, true)),
            24 => format!("exists {}", self.fact_literal(depth, true)),
            25 => format!("{} {} {}", ps(self.rng, &["count_up_to", "at_least", "at_most", "exactly"]), ps(self.rng, &["0", "1", "3", "-1", "9223372036854775807"]), self.fact_literal(depth, true)),
            26 => format!("{} as {}", self.expr(depth + 1), ps(self.rng, &["S0", "S1", "S9", "E0"])),
            27 => format!("{} substruct {}", self.expr(depth + 1), ps(self.rng, &["S0", "S1", "S9"])),
            28 => format!("{}({}, {})", ps(self.rng, &["saturating_add", "saturating_sub", "add", "sub"]), self.expr(depth + 1), self.expr(depth + 1)),
            29 => format!("{}({})", ps(self.rng, &["unwrap", "check_unwrap", "serialize", "deserialize"]), self.expr(depth + 1)),
            30 => format!("return {}", self.expr(depth + 1)),
            31 => format!("recall {}()", ps(self.rng, &["r0", "r9", "f0"])),
            32 => self.typed("int", depth + 1),
            33 => (ps(self.rng, &["-1", "9223372036854775807", "-9223372036854775808", "99999999999999999999"])).to_string(),
            34 => self.typed("bool", depth + 1),
            _ => self.name_in_scope(),
        }
    }

    fn block(&mut self, depth: u32, n: usize, ctx: &str) -> String {
        let was = self.in_finish;
        self.in_finish = ctx == "finish";
        let r = self.block_inner(depth, n, ctx);
        self.in_finish = was;
        r
    }

    fn block_inner(&mut self, depth: u32, n: usize, ctx: &str) -> String {
        let saved = self.locals.len();
        let mut s = String::from("{\n");
        for _ in 0..n {
            s.push_str(&self.stmt(depth + 1, ctx));
            s.push('\n');
        }
        s.push('}');
        self.locals.truncate(saved);
        s
    }

    /// `Name { f: e, ... }` for a declared command / effect.
    fn named_literal(&mut self, name: &str, depth: u32) -> String {
        match self.structs.iter().find(|s| s.0 == name).cloned() {
            Some((n, fields)) => {
                let mut parts: Vec<String> = fields.iter().map(|(f, t)| format!("{f}: {}", self.typed(t, depth + 1))).collect();
                if self.rng.chance(1, 6) && !self.locals.is_empty() {
                    // struct composition: some fields come from `...source` variables of any type
                    // (struct-typed ones like `this`, `envelope` preferred when present)
                    let mut kept = vec![];
                    for p in parts {
                        if self.rng.chance(1, 2) {
                            kept.push(p);
                        }
                    }
                    parts = kept;
                    for _ in 0..self.rng.urange(1, 2) {
                        let structy: Vec<String> = self.locals.iter().filter(|(_, t)| t.starts_with("struct") || t == "?").map(|(v, _)| v.clone()).collect();
                        let v = if !structy.is_empty() && self.rng.chance(2, 3) { self.rng.pick(&structy).clone() } else { self.rng.pick(&self.locals).0.clone() };
                        parts.push(format!("...{v}"));
                    }
                    self.tags.push("struct-composition");
                }
                format!("{n} {{ {} }}", parts.join(", "))
            }
            None => format!("{name} {{ a: {} }}", self.expr(depth + 1)),
        }
    }

    pub fn stmt(&mut self, depth: u32, ctx: &str) -> String {
        // ctx: "fn" | "finish" | "action" | "policy" | "recall" | "seal" | "open"
        let in_ctx: &[u64] = match ctx {
            "finish" => &[14, 15, 16, 17, 18],
            "action" => &[0, 1, 2, 3, 4, 9, 9, 10, 11],
            "policy" | "recall" => &[0, 1, 2, 3, 4],
            _ => &[0, 1, 2, 3, 4],
        };
        let mut k = if self.bad() { self.rng.below(19) } else { *self.rng.pick(in_ctx) };
        if !self.bad() {
            // only statements whose ingredients exist
            if matches!(k, 14 | 15 | 16) && self.facts.is_empty() {
                k = 17;
            }
            if k == 18 && self.finish_functions.is_empty() {
                k = 17;
            }
            if k == 17 && self.effects.is_empty() {
                return String::new();
            }
            if k == 11 && self.facts.is_empty() {
                k = 0;
            }
            if k == 10 && self.actions.is_empty() {
                k = 1;
            }
            if k == 9 && self.commands.is_empty() {
                k = 0;
            }
        }
        let inner = if depth >= 3 { 0 } else { self.rng.usize(3) };
        match k {
            0 | 1 => {
                let (name, ty) = if self.bad() {
                    self.tags.push("shadow-or-dup-let");
                    (self.name_in_scope(), "?".to_string())
                } else {
                    (format!("v{}", self.locals.len()), self.let_ty())
                };
                let e = self.typed(&ty, depth);
                self.push_local(&name, &ty);
                format!("let {name} = {e}")
            }
            2 => {
                let c = self.typed("bool", depth);
                let els = match ctx {
                    "policy" if !self.bad() => "recall r0()".to_string(),
                    "fn" if !self.bad() => match self.cur_ret.clone() {
                        Some(rt) => format!("return {}", self.typed(&rt, depth + 1)),
                        None => "todo()".into(),
                    },
                    _ if !self.bad() => (ps(self.rng, &["todo()", "test_fail(\"c\")"])).to_string(),
                    _ => (ps(self.rng, &["todo()", "test_fail(\"c\")", "return 0", "recall r0()", "return Err(1)", "1"])).to_string(),
                };
                format!("check {c} else {els}")
            }
            3 => {
                let c = self.cond("bool", depth);
                let a = self.block(depth, inner, ctx);
                match self.rng.below(3) {
                    0 => format!("if {c} {a}"),
                    1 => format!("if {c} {a} else {}", self.block(depth, inner, ctx)),
                    _ => format!("if {c} {a} else if {} {} else {}", self.cond("bool", depth), self.block(depth, 0, ctx), self.block(depth, inner, ctx)),
                }
            }
            4 => {
                let scrut = self.cond("int", depth);
                let mut arms = String::new();
                let mut used = vec![];
                for _ in 0..self.rng.urange(1, 3) {
                    let p = if self.bad() {
                        self.expr(3)
                    } else {
                        let mut v = self.rng.range(0, 9);
                        while used.contains(&v) {
                            v += 10;
                        }
                        used.push(v);
                        v.to_string()
                    };
                    arms.push_str(&format!("{p} => {}\n", self.block(depth, inner, ctx)));
                }
                if !self.bad() {
                    arms.push_str(&format!("_ => {}\n", self.block(depth, inner, ctx)));
                }
                format!("match {scrut} {{\n{arms}}}")
            }
            5 => format!("finish {}", { let n = self.rng.usize(4); self.block(depth, n, "finish") }),
            6 | 13 => format!("return {}", self.expr(depth)),
            7 => format!("debug_assert({})", self.typed("bool", depth)),
            8 => self.call(depth),
            9 => {
                let what = if !self.commands.is_empty() && !self.bad() {
                    let c = self.rng.pick(&self.commands).clone();
                    self.named_literal(&c, depth)
                } else {
                    self.expr(depth)
                };
                format!("publish {what}")
            }
            10 => {
                let (name, params) = if self.actions.is_empty() || self.bad() {
                    ("a9".to_string(), vec!["int".to_string(); self.rng.usize(2)])
                } else {
                    self.rng.pick(&self.actions).clone()
                };
                let args: Vec<String> = params.iter().map(|t| self.typed(t, depth + 1)).collect();
                format!("action {name}({})", args.join(", "))
            }
            11 => {
                let saved = self.locals.len();
                let f = self.fact_literal(depth, true);
                let mv = if self.bad() { "m".to_string() } else { format!("m{}", self.locals.len()) };
                self.push_local(&mv, "?");
                let b = self.block(depth, inner, ctx);
                self.locals.truncate(saved);
                format!("map {f} as {mv} {b}")
            }
            12 => format!("recall {}({})", ps(self.rng, &["r0", "r1", "r9"]), if self.rng.bool() { String::new() } else { self.expr(depth + 1) }),
            14 => format!("create {}", { let b = self.bad(); self.fact_literal(depth, b) }),
            15 => {
                if self.facts.is_empty() || self.bad() {
                    let f = { let b = self.bad(); self.fact_literal(depth, b) };
                    let e = self.expr(depth + 1);
                    format!("update {f} to {{v: {e}}}")
                } else {
                    let (name, keys, vals) = self.rng.pick(&self.facts).clone();
                    let kk: Vec<String> = keys.iter().map(|(k, t)| format!("{k}: {}", self.typed(t, depth + 1))).collect();
                    let vv: Vec<String> = vals.iter().map(|(k, t)| format!("{k}: {}", self.typed(t, depth + 1))).collect();
                    format!("update {name}[{}] to {{{}}}", kk.join(", "), vv.join(", "))
                }
            }
            16 => {
                if self.facts.is_empty() || self.bad() {
                    format!("delete {}", { let b = self.bad(); self.fact_literal(depth, b) })
                } else {
                    let (name, keys, _) = self.rng.pick(&self.facts).clone();
                    let kk: Vec<String> = keys.iter().map(|(k, t)| format!("{k}: {}", self.typed(t, depth + 1))).collect();
                    format!("delete {name}[{}]", kk.join(", "))
                }
            }
            17 => {
                let what = if !self.effects.is_empty() && !self.bad() {
                    let c = self.rng.pick(&self.effects).clone();
                    self.named_literal(&c, depth)
                } else {
                    self.expr(depth)
                };
                format!("emit {what}")
            }
            _ => {
                let (name, params) = if self.finish_functions.is_empty() || self.bad() {
                    if self.effects.is_empty() {
                        ("ff9".to_string(), vec![])
                    } else {
                        // nothing to call: emit instead
                        let c = self.rng.pick(&self.effects).clone();
                        return format!("emit {}", self.named_literal(&c, depth));
                    }
                } else {
                    self.rng.pick(&self.finish_functions).clone()
                };
                let args: Vec<String> = params.iter().map(|t| self.typed(t, depth + 1)).collect();
                format!("{name}({})", args.join(", "))
            }
        }
    }

    fn params(&mut self) -> (String, Vec<String>) {
        let n = self.rng.usize(3);
        let mut parts = vec![];
        let mut tys = vec![];
        for i in 0..n {
            let name = if self.bad() { "p0".to_string() } else { format!("p{i}") };
            let t = self.ty(1);
            self.push_local(&name, &t);
            parts.push(format!("{name} {t}"));
            tys.push(t);
        }
        (parts.join(", "), tys)
    }

    pub fn program(mut self) -> (String, Vec<&'static str>) {
        let mut out = String::new();
        if self.rng.chance(1, 3) {
            out.push_str(&format!("use {}\n", if self.bad() { ps(self.rng, &["nomod", "envelope", "test\nuse test"]) } else { "test" }));
        } else if self.wrong == 0 {
            out.push_str("use test\n");
        }
        for i in 0..self.rng.usize(3) {
            let name = self.fresh("E", i);
            let vs: Vec<String> = (0..self.rng.urange(1, 3)).map(|j| if self.bad() { "A".to_string() } else { ["A", "B", "C"][j].to_string() }).collect();
            out.push_str(&format!("enum {name} {{ {} }}\n", vs.join(", ")));
            self.enums.push((name, vs));
        }
        for i in 0..self.rng.usize(4) {
            let name = self.fresh("S", i);
            let mut fields = vec![];
            let mut parts = vec![];
            for j in 0..self.rng.usize(4) {
                let f = if self.bad() { "a".to_string() } else { ["a", "b", "c", "d"][j].to_string() };
                let t = if self.bad() {
                    self.tags.push("maybe-cyclic-struct");
                    format!("struct {name}")
                } else {
                    self.ty(0)
                };
                parts.push(format!("{f} {t}"));
                fields.push((f, t));
            }
            if self.bad() {
                parts.push(format!("+{}", ps(self.rng, &["S0", "S1", "S9"])));
            } else if self.rng.chance(1, 6) && !self.structs.is_empty() {
                // insertion of an already defined struct, before or after the explicit fields
                let k = self.rng.usize(self.structs.len());
                let at = self.rng.usize(parts.len() + 1);
                parts.insert(at, format!("+{}", self.structs[k].0));
                self.tags.push("struct-field-insertion");
            }
            out.push_str(&format!("struct {name} {{ {} }}\n", parts.join(", ")));
            self.structs.push((name, fields));
        }
        for i in 0..self.rng.usize(3) {
            let name = self.fresh("F", i);
            let keys: Vec<(String, String)> = (0..self.rng.usize(3)).map(|j| (["k", "j", "i"][j].to_string(), if self.bad() { self.ty(0) } else { (ps(self.rng, &["int", "string", "bool", "int"])).to_string() })).collect();
            let vals: Vec<(String, String)> = (0..self.rng.usize(3)).map(|j| (if self.bad() { "k".to_string() } else { ["v", "w", "u"][j].to_string() }, if self.bad() { self.ty(0) } else { (ps(self.rng, &["int", "string", "bool", "option[int]"])).to_string() })).collect();
            let kk: Vec<String> = keys.iter().map(|(a, b)| format!("{a} {b}")).collect();
            let vv: Vec<String> = vals.iter().map(|(a, b)| format!("{a} {b}")).collect();
            out.push_str(&format!("{}fact {name}[{}]=>{{{}}}\n", if self.rng.chance(1, 5) { "immutable " } else { "" }, kk.join(", "), vv.join(", ")));
            self.facts.push((name, keys, vals));
        }
        for i in 0..self.rng.usize(3) {
            let name = self.fresh("Eff", i);
            let t = if self.bad() { self.ty(0) } else { (ps(self.rng, &["int", "string", "bool", "option[int]"])).to_string() };
            let ins = if self.rng.chance(1, 5) && !self.structs.is_empty() {
                let k = self.rng.usize(self.structs.len());
                self.tags.push("effect-field-insertion");
                if self.rng.chance(1, 2) { format!(", +{}", self.structs[k].0) } else { format!(", +{}, +{}", self.structs[k].0, self.structs[self.rng.usize(self.structs.len())].0) }
            } else {
                String::new()
            };
            out.push_str(&format!("effect {name} {{ a {t}{}{ins} }}\n", if self.rng.chance(1, 4) { " dynamic" } else { "" }));
            self.effects.push(name.clone());
            self.structs.push((name, vec![("a".into(), t)]));
        }
        for i in 0..self.rng.usize(3) {
            let ty = (ps(self.rng, &["int", "bool", "string", "option[int]"])).to_string();
            // global lets take constant expressions only
            let e = if self.bad() {
                self.expr(1)
            } else {
                match ty.as_str() {
                    "int" => self.rng.range(0, 99).to_string(),
                    "bool" => (ps(self.rng, &["true", "false"])).to_string(),
                    "string" => "\"g\"".to_string(),
                    _ => (ps(self.rng, &["None", "Some(4)"])).to_string(),
                }
            };
            let name = self.fresh("g", i);
            out.push_str(&format!("let {name} = {e}\n"));
            // `None` alone has no complete type; do not hand it out as option[int]
            let gty = if e == "None" { "?".to_string() } else { ty };
            self.globals.push((name, gty));
        }
        // function signatures first so calls (including recursive and forward ones) resolve
        let nf = self.rng.usize(4);
        let mut sigs = vec![];
        for i in 0..nf {
            let name = self.fresh("f", i);
            self.locals.clear();
            let (p, tys) = self.params();
            let rt = if self.bad() { self.ty(0) } else { (ps(self.rng, &["int", "bool", "string", "int"])).to_string() };
            sigs.push((name.clone(), p, tys.clone(), rt.clone(), self.locals.clone()));
            // a function is callable (without recursion) only by functions declared after it,
            // unless recursion is wanted
            if self.bad() {
                self.tags.push("maybe-recursive");
                self.functions.push((name, tys, rt));
            }
        }
        for i in 0..self.rng.usize(2) {
            let name = self.fresh("ff", i);
            self.locals.clear();
            self.cur_ret = None;
            let (p, tys) = self.params();
            let body = { let n = self.rng.usize(3); self.block(0, n, "finish") };
            out.push_str(&format!("finish function {name}({p}) {body}\n"));
            self.finish_functions.push((name, tys));
        }
        for (name, p, tys, rt, locals) in sigs {
            self.locals = locals;
            self.cur_ret = Some(rt.clone());
            let mut body = { let n = self.rng.usize(3); self.block(0, n, "fn") };
            if !self.bad() {
                body.pop();
                body.push_str(&format!("return {}\n}}", self.typed(&rt, 1)));
            }
            out.push_str(&format!("function {name}({p}) {rt} {body}\n"));
            if !self.functions.iter().any(|f| f.0 == name) {
                self.functions.push((name, tys, rt));
            }
        }
        self.cur_ret = None;
        for i in 0..self.rng.usize(3) {
            let name = self.fresh("C", i);
            self.locals.clear();
            let t = if self.bad() { self.ty(0) } else { (ps(self.rng, &["int", "string", "bool", "option[int]"])).to_string() };
            self.push_local("this", &format!("struct {name}"));
            // make `this.a` available to the typed generator
            self.structs.push((name.clone(), vec![("a".into(), t.clone())]));
            let mut c = format!("{}command {name} {{\n", if self.bad() { "ephemeral " } else { "" });
            if self.rng.chance(1, 4) {
                c.push_str(&format!("attributes {{ prio: {} }}\n", if self.bad() { self.expr(2) } else { self.rng.range(0, 9).to_string() }));
            }
            if !self.bad() {
                // explicit fields plus struct insertions at any position (colliding field names
                // arise naturally: most generated structs have a field `a`)
                let mut parts = vec![format!("a {t}")];
                if self.rng.chance(1, 4) {
                    parts.push(format!("{} int", ps(self.rng, &["b", "c", "a"])));
                }
                for _ in 0..self.rng.usize(3) {
                    if self.rng.chance(1, 2) && !self.structs.is_empty() {
                        let k = self.rng.usize(self.structs.len());
                        let ins = format!("+{}", self.structs[k].0);
                        let at = self.rng.usize(parts.len() + 1);
                        parts.insert(at, ins);
                        self.tags.push("command-field-insertion");
                    }
                }
                c.push_str(&format!("fields {{ {} }}\n", parts.join(", ")));
            }
            if !self.bad() {
                c.push_str(&format!("seal {}\n", if !self.bad() { "{ return todo() }".to_string() } else { self.block(0, 2, "seal") }));
            }
            if !self.bad() {
                c.push_str(&format!("open {}\n", if !self.bad() { "{ return todo() }".to_string() } else { self.block(0, 2, "open") }));
            }
            self.push_local("envelope", "?");
            let mut pol = { let n = self.rng.usize(3); self.block(0, n, "policy") };
            if !self.bad() {
                pol.pop();
                pol.push_str(&format!("finish {}\n}}", { let n = self.rng.usize(3); self.block(1, n, "finish") }));
            }
            c.push_str(&format!("policy {pol}\n"));
            let nrecall = if self.bad() { self.rng.usize(3) } else { 1 };
            for r in 0..nrecall {
                let rn = if self.bad() { "r0".to_string() } else { format!("r{r}") };
                let mut rb = { let n = self.rng.usize(2); self.block(0, n, "recall") };
                if !self.bad() {
                    rb.pop();
                    rb.push_str(&format!("finish {}\n}}", { let n = self.rng.usize(2); self.block(1, n, "finish") }));
                }
                c.push_str(&format!("recall {rn}() {rb}\n"));
            }
            c.push_str("}\n");
            out.push_str(&c);
            self.commands.push(name.clone());
        }
        for i in 0..self.rng.usize(3) {
            let name = self.fresh("a", i);
            self.locals.clear();
            let (p, tys) = self.params();
            let rt = if self.bad() { format!(" result[unit, {}]", self.ty(1)) } else { String::new() };
            let mut body = { let n = self.rng.usize(4); self.block(0, n, "action") };
            if !self.commands.is_empty() && !self.bad() {
                // every path publishes
                let c = self.rng.pick(&self.commands).clone();
                body.pop();
                body.push_str(&format!("publish {}\n}}", self.named_literal(&c, 1)));
            }
            out.push_str(&format!("{}action {name}({p}){rt} {body}\n", if self.bad() { "ephemeral " } else { "" }));
            self.actions.push((name, tys));
        }
        (out, self.tags)
    }
}

pub fn gen_program(rng: &mut Rng) -> (String, Vec<&'static str>) {
    for _ in 0..8 {
        let (s, tags) = ProgGen::new(rng).program();
        if s.len() <= MAX_INPUT && !s.is_empty() {
            return (s, tags);
        }
    }
    ("struct S0 { a int }\n".into(), vec![])
}

/// Random text: bytes (lossy), unicode soup, token soup.
pub fn gen_random_text(rng: &mut Rng) -> String {
    let n = match rng.below(5) {
        0 => rng.usize(8),
        1 => rng.urange(1000, 4000),
        _ => rng.urange(8, 200),
    };
    let mut s = match rng.below(4) {
        0 => String::from_utf8_lossy(&rng.bytes(n)).into_owned(),
        1 => {
            let mut s = String::new();
            while s.len() < n {
                let c = match rng.below(5) {
                    0 => rng.range(0, 0x7f) as u32,
                    1 => rng.range(0x80, 0x7ff) as u32,
                    2 => rng.range(0x800, 0xffff) as u32,
                    3 => rng.range(0x10000, 0x10ffff) as u32,
                    _ => rng.range(0x20, 0x7e) as u32,
                };
                if let Some(c) = char::from_u32(c) {
                    s.push(c);
                }
            }
            s
        }
        _ => {
            let mut s = String::new();
            while s.len() < n {
                let t = match rng.below(6) {
                    0 => ps(rng, &["{", "}", "(", ")", "[", "]", ",", ":", "=", "\"", "\\", ".", "!", "?", "|", "`", "-", "\n"]),
                    1 => ps(rng, &["x", "y", "S0", "f0", "1", "0", "-1", "\"s\""]),
                    _ => ps(rng, KEYWORDS),
                };
                s.push_str(t);
                if rng.chance(3, 4) {
                    s.push(' ');
                }
            }
            s
        }
    };
    while s.len() > MAX_INPUT {
        s.pop();
    }
    if rng.chance(1, 6) {
        let mut w = wrap_md(&s);
        while w.len() > MAX_INPUT {
            w.pop();
        }
        return w;
    }
    s
}

// ---------------------------------------------------------------------------------- inputs

/// One front-end input of the C27 workload (also the source of "mutated but accepted" policies
/// for C28). Deterministic in `(rng, idx, corpus)`.
pub struct FrontInput {
    pub text: String,
    /// "corpus" (unmutated, bounded), "mutated", "generated", "generated-expr", "random"
    pub class: &'static str,
    pub detail: String,
}

pub fn gen_front_input(rng: &mut Rng, idx: u64, corpus: &[Doc]) -> FrontInput {
    match idx % 10 {
        0..=5 if !corpus.is_empty() => {
            let d = rng.pick(corpus);
            let (mut text, mut md) = bounded(rng, d);
            if !md && rng.chance(1, 4) && text.len() + 80 < MAX_INPUT {
                text = wrap_md(&text);
                md = true;
            }
            if rng.chance(1, 10) {
                return FrontInput { text, class: "corpus", detail: d.path.clone() };
            }
            let donor = &rng.pick(corpus).text;
            let (t, names) = mutate(rng, &text, md, donor);
            FrontInput { text: t, class: "mutated", detail: format!("{} {:?}", d.path, names) }
        }
        6 | 7 | 0..=5 => {
            if rng.chance(1, 3) {
                let mut g = ProgGen::new(rng);
                let mut e = g.expr(0);
                let tags = g.tags.clone();
                if e.len() > MAX_INPUT {
                    e.truncate(MAX_INPUT);
                }
                if rng.chance(1, 3) {
                    let (m, _) = mutate(rng, &e, false, "");
                    e = m;
                }
                FrontInput { text: e, class: "generated-expr", detail: format!("{tags:?}") }
            } else {
                let (p, tags) = gen_program(rng);
                let text = if rng.chance(1, 5) && p.len() + 80 < MAX_INPUT { wrap_md(&p) } else { p };
                FrontInput { text, class: "generated", detail: format!("{tags:?}") }
            }
        }
        _ => FrontInput { text: gen_random_text(rng), class: "random", detail: String::new() },
    }
}
