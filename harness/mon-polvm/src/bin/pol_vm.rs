//! C25: the VM never panics on any bytecode.
//!
//! Parent process: spawns `cores()` shard children (a process abort escapes `catch`), merges
//! their monitors, and replays the case a crashed shard was working on in a fresh child.
//! Child process: generates and executes cases `i` with `i % n == shard`.
use std::{cell::RefCell, collections::BTreeMap, time::Duration};

use aranya_crypto::{BaseId, DeviceId, policy::CmdId};
use aranya_policy_ast::{Span, Version};
use aranya_policy_compiler::Compiler;
use aranya_policy_lang::lang::{parse_policy_document, parse_policy_str};
use aranya_policy_vm::{
    ActionContext, ActionDef, CodeMap, CommandContext, CommandDef, ConstValue, EnumDef, ExitReason,
    FactDef, Field, Identifier, Instruction, Label, LabelType, Machine, MachineIO, MachineStack,
    MachineStatus, Meta, Module, ModuleData, OpenContext, Persistence, PolicyContext, SealContext,
    Stack as _, Struct, StructDef, Target, TypeKind, Value, WrapType,
};
use polvm::{
    corpus, ffi_schemas,
    io::{ChaosIO, RecIO, ffi_sigs},
    repo_root,
    shard::{self, ChildOutcome},
    vals::{self, Defs, ident, ps},
};
use vcore::*;

const STEP_BUDGET: u64 = 4096;
const NODE_BUDGET: usize = 20_000;

/// Every `Instruction` variant, by name. `kind_of` is exhaustive, so a new variant breaks the build.
const KINDS: &[&str] = &[
    "Const", "Identifier", "Def", "Get", "Dup", "Pop", "Block", "End", "Jump", "Branch", "Next",
    "Last", "Call", "Recall", "ExtCall", "Return", "Exit", "Add", "Sub", "SaturatingAdd",
    "SaturatingSub", "Not", "Gt", "Lt", "Eq", "FactNew", "FactKeySet", "FactValueSet", "StructNew",
    "StructSet", "StructGet", "MStructSet", "MStructGet", "Cast", "Wrap", "Is", "Unwrap", "Publish",
    "Create", "Delete", "Update", "Emit", "Query", "FactCount", "QueryStart", "QueryNext",
    "Serialize", "Deserialize", "SaveSP", "RestoreSP", "Meta",
];

fn kind_of(i: &Instruction) -> &'static str {
    match i {
        Instruction::Const(_) => "Const",
        Instruction::Identifier(_) => "Identifier",
        Instruction::Def(_) => "Def",
        Instruction::Get(_) => "Get",
        Instruction::Dup => "Dup",
        Instruction::Pop => "Pop",
        Instruction::Block => "Block",
        Instruction::End => "End",
        Instruction::Jump(_) => "Jump",
        Instruction::Branch(_) => "Branch",
        Instruction::Next => "Next",
        Instruction::Last => "Last",
        Instruction::Call(_) => "Call",
        Instruction::Recall(_) => "Recall",
        Instruction::ExtCall(..) => "ExtCall",
        Instruction::Return => "Return",
        Instruction::Exit(_) => "Exit",
        Instruction::Add => "Add",
        Instruction::Sub => "Sub",
        Instruction::SaturatingAdd => "SaturatingAdd",
        Instruction::SaturatingSub => "SaturatingSub",
        Instruction::Not => "Not",
        Instruction::Gt => "Gt",
        Instruction::Lt => "Lt",
        Instruction::Eq => "Eq",
        Instruction::FactNew(_) => "FactNew",
        Instruction::FactKeySet(_) => "FactKeySet",
        Instruction::FactValueSet(_) => "FactValueSet",
        Instruction::StructNew(_) => "StructNew",
        Instruction::StructSet(_) => "StructSet",
        Instruction::StructGet(_) => "StructGet",
        Instruction::MStructSet(_) => "MStructSet",
        Instruction::MStructGet(_) => "MStructGet",
        Instruction::Cast(_) => "Cast",
        Instruction::Wrap(_) => "Wrap",
        Instruction::Is(_) => "Is",
        Instruction::Unwrap(_) => "Unwrap",
        Instruction::Publish => "Publish",
        Instruction::Create => "Create",
        Instruction::Delete => "Delete",
        Instruction::Update => "Update",
        Instruction::Emit => "Emit",
        Instruction::Query => "Query",
        Instruction::FactCount(_) => "FactCount",
        Instruction::QueryStart => "QueryStart",
        Instruction::QueryNext(_) => "QueryNext",
        Instruction::Serialize => "Serialize",
        Instruction::Deserialize => "Deserialize",
        Instruction::SaveSP => "SaveSP",
        Instruction::RestoreSP => "RestoreSP",
        Instruction::Meta(_) => "Meta",
    }
}

// ------------------------------------------------------------------------------ generation

struct Gen<'a> {
    rng: &'a mut Rng,
    /// program length the targets are drawn around
    plen: usize,
    /// extra identifiers (e.g. those used by a compiled module)
    names: &'a [Identifier],
}

impl Gen<'_> {
    fn name(&mut self) -> Identifier {
        if !self.names.is_empty() && self.rng.chance(2, 3) {
            return self.rng.pick(self.names).clone();
        }
        vals::gen_name(self.rng)
    }

    fn label(&mut self) -> Label {
        let t = match self.rng.below(7) {
            0 => LabelType::Action,
            1 => LabelType::CommandPolicy,
            2 => LabelType::CommandRecall,
            3 => LabelType::CommandSeal,
            4 => LabelType::CommandOpen,
            5 => LabelType::Temporary,
            _ => LabelType::Function,
        };
        Label::new(self.name(), t)
    }

    fn target(&mut self) -> Target {
        match self.rng.below(10) {
            0 => Target::Unresolved(self.label()),
            1 => Target::Resolved(self.plen + self.rng.usize(3)), // just past the end
            2 => Target::Resolved(*self.rng.pick(&[usize::MAX, usize::MAX - 1, 1 << 40, 1 << 31])),
            _ => Target::Resolved(self.rng.usize(self.plen.max(1))), // includes self-jumps
        }
    }

    fn wrap(&mut self) -> WrapType {
        *self.rng.pick(&[WrapType::Ok, WrapType::Err, WrapType::Some])
    }

    fn nz(&mut self) -> std::num::NonZeroUsize {
        // Huge counts (a corrupted module can carry them) are kept rare: `MStructSet` reserves
        // `n` slots up front, so they end the program (panic / allocation failure) at once.
        let n = match self.rng.below(120) {
            0 => usize::MAX,
            1 => 1 << 33,
            2..=9 => 101,
            _ => self.rng.urange(1, 3),
        };
        std::num::NonZeroUsize::new(n).unwrap()
    }

    fn instr(&mut self, kind: &str) -> Instruction {
        match kind {
            "Const" => Instruction::Const(vals::gen_const(self.rng, 0)),
            "Identifier" => Instruction::Identifier(self.name()),
            "Def" => Instruction::Def(self.name()),
            "Get" => Instruction::Get(self.name()),
            "Dup" => Instruction::Dup,
            "Pop" => Instruction::Pop,
            "Block" => Instruction::Block,
            "End" => Instruction::End,
            "Jump" => Instruction::Jump(self.target()),
            "Branch" => Instruction::Branch(self.target()),
            "Next" => Instruction::Next,
            "Last" => Instruction::Last,
            "Call" => Instruction::Call(self.target()),
            "Recall" => Instruction::Recall(self.target()),
            "ExtCall" => Instruction::ExtCall(
                *self.rng.pick(&[0, 1, 2, 7, usize::MAX]),
                *self.rng.pick(&[0, 1, 2, 30, usize::MAX]),
            ),
            "Return" => Instruction::Return,
            "Exit" => Instruction::Exit(
                self.rng
                    .pick(&[ExitReason::Normal, ExitReason::Yield, ExitReason::Check, ExitReason::Panic])
                    .clone(),
            ),
            "Add" => Instruction::Add,
            "Sub" => Instruction::Sub,
            "SaturatingAdd" => Instruction::SaturatingAdd,
            "SaturatingSub" => Instruction::SaturatingSub,
            "Not" => Instruction::Not,
            "Gt" => Instruction::Gt,
            "Lt" => Instruction::Lt,
            "Eq" => Instruction::Eq,
            "FactNew" => Instruction::FactNew(self.name()),
            "FactKeySet" => Instruction::FactKeySet(self.name()),
            "FactValueSet" => Instruction::FactValueSet(self.name()),
            "StructNew" => Instruction::StructNew(self.name()),
            "StructSet" => Instruction::StructSet(self.name()),
            "StructGet" => Instruction::StructGet(self.name()),
            "MStructSet" => Instruction::MStructSet(self.nz()),
            "MStructGet" => Instruction::MStructGet(self.nz()),
            "Cast" => Instruction::Cast(self.name()),
            "Wrap" => Instruction::Wrap(self.wrap()),
            "Is" => Instruction::Is(self.wrap()),
            "Unwrap" => Instruction::Unwrap(self.wrap()),
            "Publish" => Instruction::Publish,
            "Create" => Instruction::Create,
            "Delete" => Instruction::Delete,
            "Update" => Instruction::Update,
            "Emit" => Instruction::Emit,
            "Query" => Instruction::Query,
            "FactCount" => Instruction::FactCount(*self.rng.pick(&[0, 1, 3, -1, i64::MAX, i64::MIN])),
            "QueryStart" => Instruction::QueryStart,
            "QueryNext" => Instruction::QueryNext(self.name()),
            "Serialize" => Instruction::Serialize,
            "Deserialize" => Instruction::Deserialize,
            "SaveSP" => Instruction::SaveSP,
            "RestoreSP" => Instruction::RestoreSP,
            "Meta" => Instruction::Meta(if self.rng.bool() {
                Meta::Finish(self.rng.bool())
            } else {
                Meta::FFI(self.name(), self.name())
            }),
            other => panic!("harness: unknown kind {other}"),
        }
    }

    fn int(&mut self) -> Instruction {
        Instruction::Const(ConstValue::Int(vals::gen_int(self.rng)))
    }

    /// A struct `S {a int, b string}` / `Cmd {a int}` / `Eff {a int}` built on the stack.
    fn build_struct(&mut self, name: &str, p: &mut Vec<Instruction>) {
        p.push(Instruction::StructNew(ident(name)));
        p.push(self.int());
        p.push(Instruction::StructSet(ident("a")));
        if name == "S" {
            p.push(Instruction::Const(ConstValue::String(vals::gen_text(self.rng))));
            p.push(Instruction::StructSet(ident("b")));
        }
    }

    /// A fact `F[k int]=>{v int}` built on the stack.
    fn build_fact(&mut self, with_value: bool, p: &mut Vec<Instruction>) {
        p.push(Instruction::FactNew(ident("F")));
        p.push(self.int());
        p.push(Instruction::FactKeySet(ident("k")));
        if with_value {
            p.push(self.int());
            p.push(Instruction::FactValueSet(ident("v")));
        }
    }

    /// Emit `kind`, half of the time preceded by a prefix that makes it likely to succeed
    /// against the "agreeing" definitions, so execution gets past the first instruction.
    fn emit(&mut self, kind: &str, p: &mut Vec<Instruction>) {
        if self.rng.bool() {
            p.push(self.instr(kind));
            return;
        }
        match kind {
            "Def" => {
                p.push(self.instr("Const"));
                p.push(Instruction::Def(self.name()));
            }
            "Get" => {
                let n = self.name();
                p.push(self.instr("Const"));
                p.push(Instruction::Def(n.clone()));
                p.push(Instruction::Get(n));
            }
            "Dup" | "Pop" | "Wrap" => {
                p.push(self.instr("Const"));
                p.push(self.instr(kind));
            }
            "End" => {
                p.push(Instruction::Block);
                p.push(Instruction::End);
            }
            "Branch" => {
                p.push(Instruction::Const(ConstValue::Bool(self.rng.bool())));
                p.push(self.instr("Branch"));
            }
            "Add" | "Sub" | "SaturatingAdd" | "SaturatingSub" | "Gt" | "Lt" | "Eq" => {
                p.push(self.int());
                p.push(self.int());
                p.push(self.instr(kind));
            }
            "Not" => {
                p.push(Instruction::Const(ConstValue::Bool(self.rng.bool())));
                p.push(Instruction::Not);
            }
            "FactKeySet" | "FactValueSet" => {
                p.push(Instruction::FactNew(ident("F")));
                p.push(self.int());
                p.push(self.instr(kind));
            }
            "StructSet" => self.build_struct("S", p),
            "StructGet" => {
                self.build_struct("S", p);
                p.push(Instruction::StructGet(ident(ps(self.rng, &["a", "b", "c"]))));
            }
            "MStructSet" => {
                p.push(Instruction::StructNew(ident("S")));
                let n = self.rng.urange(1, 2);
                for i in 0..n {
                    p.push(Instruction::Identifier(ident(["a", "b"][i])));
                    p.push(if i == 0 { self.int() } else { Instruction::Const(ConstValue::String(vals::gen_text(self.rng))) });
                }
                p.push(Instruction::MStructSet(std::num::NonZeroUsize::new(n).unwrap()));
            }
            "MStructGet" => {
                self.build_struct("S", p);
                let n = self.rng.urange(1, 2);
                for i in 0..n {
                    p.push(Instruction::Identifier(ident(["a", "b"][i])));
                }
                p.push(Instruction::MStructGet(std::num::NonZeroUsize::new(n).unwrap()));
            }
            "Cast" => {
                self.build_struct("S", p);
                p.push(Instruction::Cast(ident(ps(self.rng, &["T", "S", "U", "E"]))));
            }
            "Is" | "Unwrap" => {
                let w = self.wrap();
                p.push(self.instr("Const"));
                p.push(Instruction::Wrap(w));
                p.push(if kind == "Is" { Instruction::Is(self.wrap()) } else { Instruction::Unwrap(w) });
            }
            "Publish" | "Serialize" => {
                self.build_struct("Cmd", p);
                p.push(self.instr(kind));
            }
            "Emit" => {
                self.build_struct("Eff", p);
                p.push(Instruction::Emit);
            }
            "Create" => {
                self.build_fact(true, p);
                p.push(Instruction::Create);
            }
            "Delete" | "Query" | "QueryStart" => {
                let wv = self.rng.chance(1, 4);
                self.build_fact(wv, p);
                p.push(self.instr(kind));
            }
            "FactCount" => {
                self.build_fact(false, p);
                p.push(self.instr("FactCount"));
            }
            "Update" => {
                let wv = self.rng.bool();
                self.build_fact(wv, p);
                self.build_fact(true, p);
                p.push(Instruction::Update);
            }
            "QueryNext" => {
                self.build_fact(false, p);
                p.push(Instruction::QueryStart);
                let n = self.name();
                for _ in 0..self.rng.urange(1, 3) {
                    p.push(Instruction::QueryNext(n.clone()));
                    p.push(Instruction::Pop);
                }
            }
            "RestoreSP" => {
                p.push(Instruction::SaveSP);
                for _ in 0..self.rng.usize(3) {
                    p.push(self.instr("Const"));
                }
                p.push(Instruction::RestoreSP);
            }
            "Return" => {
                // call a tiny function placed right after
                let at = p.len();
                p.push(Instruction::Call(Target::Resolved(at + 2)));
                p.push(Instruction::Jump(Target::Resolved(at + 4)));
                p.push(self.instr("Const"));
                p.push(Instruction::Return);
            }
            _ => p.push(self.instr(kind)),
        }
    }
}

fn field(n: &str, ty: TypeKind) -> Field {
    Field { name: ident(n), ty }
}

/// Definitions the prefixes above agree with; each is randomly kept, dropped or bent.
fn install_defs(rng: &mut Rng, m: &mut Machine) {
    let ty = |rng: &mut Rng, t: TypeKind| if rng.chance(1, 6) { vals::gen_type(rng, 0) } else { t };
    let mut structs = vec![
        StructDef { name: ident("S"), items: vec![field("a", ty(rng, TypeKind::Int)), field("b", ty(rng, TypeKind::String))] },
        StructDef { name: ident("T"), items: vec![field("a", ty(rng, TypeKind::Int))] },
        StructDef { name: ident("U"), items: vec![field("s", ty(rng, TypeKind::Struct(ident("S")))), field("o", TypeKind::Optional(Box::new(TypeKind::Int)))] },
        StructDef { name: ident("Cmd"), items: vec![field("a", ty(rng, TypeKind::Int))] },
        StructDef { name: ident("Eff"), items: vec![field("a", ty(rng, TypeKind::Int))] },
    ];
    if rng.chance(1, 8) {
        // self-referential definition (a corrupted module can contain one)
        structs[1].items.push(field("t", TypeKind::Struct(ident("T"))));
    }
    for s in structs {
        if !rng.chance(1, 6) {
            m.struct_defs.insert(s);
        }
    }
    if !rng.chance(1, 6) {
        m.fact_defs.insert(FactDef {
            name: ident("F"),
            key: vec![field("k", ty(rng, TypeKind::Int))],
            value: vec![field("v", ty(rng, TypeKind::Int))],
            immutable: rng.chance(1, 4),
        });
    }
    if rng.chance(1, 3) {
        m.fact_defs.insert(FactDef { name: ident("G"), key: vec![], value: vec![], immutable: false });
    }
    if !rng.chance(1, 6) {
        m.enum_defs.insert(EnumDef { name: ident("E"), variants: vec![(ident("A"), 0), (ident("B"), 1)] });
    }
    if !rng.chance(1, 4) {
        m.command_defs.insert(CommandDef {
            name: ident("Cmd"),
            persistence: Persistence::Persistent,
            attributes: vec![],
            fields: vec![field("a", ty(rng, TypeKind::Int))],
        });
    }
    if !rng.chance(1, 4) {
        let n = rng.usize(3);
        m.action_defs.insert(ActionDef {
            name: ident("act"),
            persistence: Persistence::Persistent,
            params: (0..n).map(|i| field(["x", "y"][i], vals::gen_type(rng, 1))).collect(),
            result_type: if rng.bool() { TypeKind::Unit } else { vals::gen_type(rng, 1) },
        });
    }
    for _ in 0..rng.usize(3) {
        m.globals.insert(vals::gen_name(rng), vals::gen_const(rng, 0));
    }
}

fn gen_codemap(rng: &mut Rng, plen: usize, hostile: bool) -> Option<CodeMap> {
    if rng.chance(2, 3) {
        return None;
    }
    let text = match rng.below(4) {
        0 if hostile => String::new(),
        1 if hostile => "é→𝄞 policy text\nline two\n".to_string(),
        _ => "action foo() {\n    publish Cmd { a: 1 }\n}\n".to_string(),
    };
    let len = text.len();
    let mut cm = CodeMap::new(text);
    let mut at = 0usize;
    for _ in 0..rng.usize(5) {
        at += rng.usize(plen.max(1) / 2 + 1);
        // start <= end is a documented precondition of Span::new; everything else goes:
        // empty spans, spans ending at/after the end of the text, spans inside a character.
        let (a, b) = if hostile {
            let a = rng.usize(len + 3);
            let b = a + match rng.below(4) {
                0 => 0,
                1 => rng.usize(4),
                _ => rng.usize(len + 2),
            };
            if rng.chance(1, 6) { (len, len) } else { (a, b) }
        } else {
            // well-formed: inside the text, on character boundaries (the text is ASCII here)
            let a = rng.usize(len.max(1));
            (a.min(len.saturating_sub(1)), (a + rng.usize(8)).min(len))
        };
        let (a, b) = (a.min(b), a.max(b));
        let _ = cm.map_instruction(at, Span::new(a, b));
    }
    Some(cm)
}

fn gen_ctx(rng: &mut Rng, names: &[Identifier]) -> CommandContext {
    let name = if !names.is_empty() && rng.chance(2, 3) {
        rng.pick(names).clone()
    } else {
        ident(ps(rng, &["Cmd", "act", "S", "F", "x"]))
    };
    match rng.below(5) {
        0 => CommandContext::Action(ActionContext { name, head_id: CmdId::default() }),
        1 => CommandContext::Seal(SealContext { name, head_id: CmdId::default() }),
        2 => CommandContext::Open(OpenContext { name }),
        k => {
            let c = PolicyContext { name, id: CmdId::default(), author: DeviceId::default(), version: BaseId::default() };
            if k == 3 { CommandContext::Policy(c) } else { CommandContext::Recall(c) }
        }
    }
}

enum IoChoice {
    Chaos(Rng),
    Rec,
}

/// What to do with a machine: where to start and what is on the stack.
#[derive(Clone, Debug)]
enum Entry {
    Raw,
    Label(Label),
    Action(Identifier, Vec<Value>),
    Command(Label, Struct, Struct),
}

struct Case {
    mode: &'static str,
    machine: Machine,
    ctx: CommandContext,
    stack: Vec<Value>,
    entry: Entry,
    io: IoChoice,
    note: String,
}

fn hand_built(rng: &mut Rng, idx: u64) -> Case {
    // Next/Last are todo!() on the current tree; keep them out of 3 programs in 4 so the
    // other 49 kinds keep being explored behind them.
    let pool: Vec<&str> = if idx % 4 == 0 { KINDS.to_vec() } else { KINDS.iter().copied().filter(|k| !matches!(*k, "Next" | "Last")).collect() };
    let n = match rng.below(4) {
        0 => rng.urange(1, 3),
        1 => rng.urange(12, 24),
        _ => rng.urange(3, 10),
    };
    let mut prog = vec![];
    {
        let mut g = Gen { rng, plen: n * 2, names: &[] };
        for _ in 0..n {
            let k = *g.rng.pick(&pool);
            g.emit(k, &mut prog);
        }
        if g.rng.chance(1, 3) {
            let k = ps(g.rng, &["Return", "Exit", "Jump"]);
            prog.push(g.instr(k));
        }
    }
    let plen = prog.len();
    let mut machine = Machine::new(prog);
    install_defs(rng, &mut machine);
    // hostile spans (empty text, end-of-text, mid-character) only in every 8th program
    machine.codemap = gen_codemap(rng, plen, idx % 8 == 2);
    let mut g = Gen { rng, plen, names: &[] };
    for _ in 0..g.rng.usize(4) {
        let l = g.label();
        let at = match g.rng.below(6) {
            0 => plen,
            1 => usize::MAX,
            _ => g.rng.usize(plen.max(1)),
        };
        machine.labels.insert(l, at);
    }
    let ctx = gen_ctx(rng, &[]);
    let mut stack: Vec<Value> = (0..rng.usize(6)).map(|_| vals::gen_any_value(rng, 0)).collect();
    if rng.chance(1, 50) {
        while stack.len() < 99 {
            stack.push(Value::Int(1));
        }
    }
    // Valid serialized bytes so `Deserialize` gets past its first check now and then.
    if let CommandContext::Open(o) = &ctx
        && rng.bool()
    {
        let defs = Defs { structs: &machine.struct_defs, enums: &machine.enum_defs };
        if let Some(s) = vals::gen_struct(rng, &o.name, &defs, 0)
            && let Ok(mut b) = machine.serialize_struct(&s)
        {
            if rng.chance(1, 4) && !b.is_empty() {
                let k = rng.usize(b.len());
                b[k] ^= 1 << rng.usize(8);
            }
            stack.push(Value::Bytes(b));
        }
    }
    let entry = pick_entry(rng, &machine);
    Case { mode: "hand", machine, ctx, stack, entry, io: IoChoice::Chaos(rng.fork(7)), note: String::new() }
}

fn pick_entry(rng: &mut Rng, machine: &Machine) -> Entry {
    let labels: Vec<Label> = machine.labels.keys().cloned().collect();
    let defs = Defs { structs: &machine.struct_defs, enums: &machine.enum_defs };
    match rng.below(6) {
        0 | 1 if !labels.is_empty() => Entry::Label(rng.pick(&labels).clone()),
        2 if machine.action_defs.iter().next().is_some() => {
            let defs_v: Vec<&ActionDef> = machine.action_defs.iter().collect();
            let d = *rng.pick(&defs_v);
            let args = d
                .params
                .iter()
                .map(|p| {
                    if rng.chance(1, 8) {
                        vals::gen_any_value(rng, 0)
                    } else {
                        vals::gen_value(rng, &p.ty, &defs, 0).unwrap_or(Value::Unit)
                    }
                })
                .collect();
            Entry::Action(d.name.clone(), args)
        }
        3 if machine.command_defs.iter().next().is_some() => {
            let defs_v: Vec<&CommandDef> = machine.command_defs.iter().collect();
            let d = *rng.pick(&defs_v);
            let mut fields = BTreeMap::new();
            for f in &d.fields {
                if rng.chance(1, 10) {
                    continue;
                }
                fields.insert(f.name.clone(), vals::gen_value(rng, &f.ty, &defs, 0).unwrap_or(Value::Unit));
            }
            let lt = if rng.chance(1, 4) { LabelType::CommandRecall } else { LabelType::CommandPolicy };
            Entry::Command(
                Label::new(d.name.clone(), lt),
                Struct { name: d.name.clone(), fields },
                Struct { name: ident("Envelope"), fields: BTreeMap::new() },
            )
        }
        _ => Entry::Raw,
    }
}

/// Compiled corpus modules, prepared once per child.
struct Compiled {
    modules: Vec<(String, Module)>,
}

fn compile_corpus(repo: &std::path::Path) -> Compiled {
    let schemas = ffi_schemas();
    let mut modules = vec![];
    for d in corpus::load_corpus(repo) {
        if d.text.len() > 16_000 {
            continue;
        }
        let r = catch(|| {
            let ast = if d.md { parse_policy_document(&d.text).ok()? } else { parse_policy_str(&d.text, Version::V2).ok()? };
            Compiler::new(&ast).ffi_modules(&schemas).debug(true).compile().ok()
        });
        if let Ok(Some(m)) = r {
            modules.push((d.path.clone(), m));
        }
    }
    Compiled { modules }
}

fn module_names(m: &Module) -> Vec<Identifier> {
    let ModuleData::V0(v) = &m.data;
    let mut out: Vec<Identifier> = vec![];
    for i in v.progmem.iter() {
        match i {
            Instruction::Identifier(n)
            | Instruction::Def(n)
            | Instruction::Get(n)
            | Instruction::FactNew(n)
            | Instruction::FactKeySet(n)
            | Instruction::FactValueSet(n)
            | Instruction::StructNew(n)
            | Instruction::StructSet(n)
            | Instruction::StructGet(n)
            | Instruction::Cast(n)
            | Instruction::QueryNext(n) => out.push(n.clone()),
            _ => {}
        }
    }
    out.extend(v.labels.keys().map(|l| l.name.clone()));
    out.sort();
    out.dedup();
    out
}

fn mutated_module(rng: &mut Rng, c: &Compiled) -> Option<Case> {
    if c.modules.is_empty() {
        return None;
    }
    let (path, module) = rng.pick(&c.modules);
    let names = module_names(module);
    let ModuleData::V0(mut v) = module.data.clone();
    let mut prog: Vec<Instruction> = v.progmem.to_vec();
    let mut note = format!("{path}:");
    let nm = rng.urange(1, 4);
    for _ in 0..nm {
        if prog.is_empty() {
            break;
        }
        let at = rng.usize(prog.len());
        let plen = prog.len();
        let mut g = Gen { rng, plen, names: &names };
        match g.rng.below(8) {
            0 | 1 => {
                let k = *g.rng.pick(KINDS);
                let k = if matches!(k, "Next" | "Last") && !g.rng.chance(1, 4) { "Pop" } else { k };
                prog[at] = g.instr(k);
                note.push_str(&format!(" subst@{at}={k}"));
            }
            2 => {
                prog.remove(at);
                note.push_str(&format!(" del@{at}"));
            }
            3 => {
                let i = prog[at].clone();
                prog.insert(at, i);
                note.push_str(&format!(" dup@{at}"));
            }
            4 => {
                let b = g.rng.usize(plen);
                prog.swap(at, b);
                note.push_str(&format!(" swap@{at},{b}"));
            }
            5 | 6 => {
                // corrupt the operand, keep the kind
                let k = kind_of(&prog[at]);
                prog[at] = g.instr(k);
                note.push_str(&format!(" operand@{at}({k})"));
            }
            _ => {
                // bend a definition or a label
                match g.rng.below(5) {
                    0 if !v.struct_defs.is_empty() => {
                        let i = g.rng.usize(v.struct_defs.len());
                        if g.rng.bool() || v.struct_defs[i].items.is_empty() {
                            v.struct_defs.remove(i);
                        } else {
                            let j = g.rng.usize(v.struct_defs[i].items.len());
                            v.struct_defs[i].items[j].ty = vals::gen_type(g.rng, 0);
                        }
                        note.push_str(" structdef");
                    }
                    1 if !v.fact_defs.is_empty() => {
                        let i = g.rng.usize(v.fact_defs.len());
                        if g.rng.bool() {
                            v.fact_defs.remove(i);
                        } else if !v.fact_defs[i].key.is_empty() {
                            v.fact_defs[i].key[0].ty = vals::gen_type(g.rng, 0);
                        }
                        note.push_str(" factdef");
                    }
                    2 if !v.labels.is_empty() => {
                        let ls: Vec<Label> = v.labels.keys().cloned().collect();
                        let l = g.rng.pick(&ls).clone();
                        let to = if g.rng.chance(1, 4) { usize::MAX } else { g.rng.usize(plen + 2) };
                        v.labels.insert(l, to);
                        note.push_str(" label");
                    }
                    3 if !v.enum_defs.is_empty() => {
                        let i = g.rng.usize(v.enum_defs.len());
                        v.enum_defs[i].variants.clear();
                        note.push_str(" enumdef");
                    }
                    _ => {
                        v.codemap = None;
                        note.push_str(" nocodemap");
                    }
                }
            }
        }
    }
    v.progmem = prog.into_boxed_slice();
    let machine = Machine::from_module(Module { data: ModuleData::V0(v) }).ok()?;
    Some(finish_module_case(rng, "mutated", machine, note, &names))
}

fn finish_module_case(rng: &mut Rng, mode: &'static str, machine: Machine, note: String, names: &[Identifier]) -> Case {
    let labels: Vec<Label> = machine.labels.keys().cloned().collect();
    let defs = Defs { structs: &machine.struct_defs, enums: &machine.enum_defs };
    let mut stack: Vec<Value> = vec![];
    let (entry, ctx) = if labels.is_empty() || rng.chance(1, 10) {
        (Entry::Raw, gen_ctx(rng, names))
    } else {
        let l = rng.pick(&labels).clone();
        let name = l.name.clone();
        let pol = PolicyContext { name: name.clone(), id: CmdId::default(), author: DeviceId::default(), version: BaseId::default() };
        match l.ltype {
            LabelType::Action => {
                let args = machine
                    .action_defs
                    .get(&name)
                    .map(|d| d.params.iter().map(|p| vals::gen_value(rng, &p.ty, &defs, 0).unwrap_or(Value::Unit)).collect())
                    .unwrap_or_default();
                (Entry::Action(name.clone(), args), CommandContext::Action(ActionContext { name, head_id: CmdId::default() }))
            }
            LabelType::CommandPolicy | LabelType::CommandRecall => {
                let mut fields = BTreeMap::new();
                if let Some(d) = machine.command_defs.get(&name) {
                    for f in &d.fields {
                        fields.insert(f.name.clone(), vals::gen_value(rng, &f.ty, &defs, 0).unwrap_or(Value::Unit));
                    }
                }
                let ctx = if l.ltype == LabelType::CommandPolicy { CommandContext::Policy(pol) } else { CommandContext::Recall(pol) };
                (
                    Entry::Command(l, Struct { name: name.clone(), fields }, Struct { name: ident("Envelope"), fields: BTreeMap::new() }),
                    ctx,
                )
            }
            LabelType::CommandSeal => {
                if let Some(s) = vals::gen_struct(rng, &name, &defs, 0) {
                    stack.push(Value::Struct(s));
                }
                (Entry::Label(l), CommandContext::Seal(SealContext { name, head_id: CmdId::default() }))
            }
            LabelType::CommandOpen => {
                stack.push(Value::Struct(Struct { name: ident("Envelope"), fields: BTreeMap::new() }));
                (Entry::Label(l), CommandContext::Open(OpenContext { name }))
            }
            _ => {
                for _ in 0..rng.usize(4) {
                    stack.push(vals::gen_any_value(rng, 1));
                }
                (Entry::Label(l), gen_ctx(rng, names))
            }
        }
    };
    let ctx = if rng.chance(1, 8) { gen_ctx(rng, names) } else { ctx };
    let io = if rng.chance(1, 4) { IoChoice::Rec } else { IoChoice::Chaos(rng.fork(9)) };
    Case { mode, machine, ctx, stack, entry, io, note }
}

/// A module whose serialized form was corrupted but still decodes.
fn corrupted_serialized(rng: &mut Rng, c: &Compiled, m: &mut Monitor) -> Option<Case> {
    if c.modules.is_empty() {
        return None;
    }
    let (path, module) = rng.pick(&c.modules);
    let mut module = module.clone();
    if rng.chance(2, 3) {
        // without the source text the flips land in the structure
        let ModuleData::V0(v) = &mut module.data;
        v.codemap = None;
    }
    let names = module_names(&module);
    let use_rkyv = rng.chance(1, 3);
    let flips = rng.urange(1, 3);
    let decoded: Option<Module> = if use_rkyv {
        let mut bytes = rkyv::to_bytes::<rkyv::rancor::Error>(&module).ok()?;
        for _ in 0..flips {
            let k = rng.usize(bytes.len());
            if rng.bool() { bytes[k] ^= 1 << rng.usize(8) } else { bytes[k] = rng.u64() as u8 }
        }
        m.count("serialized_rkyv_tried", 1);
        rkyv::from_bytes::<Module, rkyv::rancor::Error>(&bytes).ok()
    } else {
        let mut bytes = vec![];
        ciborium::into_writer(&module, &mut bytes).ok()?;
        for _ in 0..flips {
            let k = rng.usize(bytes.len());
            if rng.bool() { bytes[k] ^= 1 << rng.usize(8) } else { bytes[k] = rng.u64() as u8 }
        }
        m.count("serialized_cbor_tried", 1);
        ciborium::from_reader::<Module, _>(&bytes[..]).ok()
    };
    let decoded = decoded?;
    if decoded == module {
        m.count("serialized_decoded_unchanged", 1);
    } else {
        m.count(if use_rkyv { "serialized_rkyv_decoded_changed" } else { "serialized_cbor_decoded_changed" }, 1);
    }
    let machine = Machine::from_module(decoded).ok()?;
    let note = format!("{path}: {} {flips} byte(s)", if use_rkyv { "rkyv" } else { "cbor" });
    Some(finish_module_case(rng, "serialized", machine, note, &names))
}

// ------------------------------------------------------------------------------ execution

#[derive(Default)]
struct Trace {
    kinds: Vec<&'static str>,
    ok_kinds: Vec<&'static str>,
    steps: u64,
    end: String,
    pcs: Vec<usize>,
}

fn drive<M: MachineIO<MachineStack>>(case: &Case, io: &mut M, tr: &RefCell<Trace>, use_run: bool) {
    let mut rs = case.machine.create_run_state(io, case.ctx.clone());
    for v in &case.stack {
        let _ = rs.stack.push_value(v.clone());
    }
    let setup = match &case.entry {
        Entry::Raw => Ok(()),
        Entry::Label(l) => rs.set_pc_by_label(l),
        Entry::Action(name, args) => rs.setup_action(name.clone(), args.clone()),
        Entry::Command(l, this, env) => rs.setup_command(l.clone(), this.clone()).and_then(|()| {
            let _ = rs.stack.push_value(Value::Struct(env.clone()));
            Ok(())
        }),
    };
    if let Err(e) = setup {
        tr.borrow_mut().end = format!("setup-err:{}", err_kind(&e));
        let _ = e.to_string();
        return;
    }
    if use_run {
        // Only used for programs already seen to stop within the budget.
        let r = rs.run();
        tr.borrow_mut().end = match r {
            Ok(r) => format!("run-exit:{r}"),
            Err(e) => format!("run-err:{}", err_kind(&e)),
        };
        return;
    }
    let mut yields = 0;
    loop {
        let pc = rs.pc();
        let kind = case.machine.progmem.get(pc).map(kind_of);
        {
            let mut t = tr.borrow_mut();
            if t.steps >= STEP_BUDGET {
                t.end = "budget".into();
                return;
            }
            t.steps += 1;
            if let Some(k) = kind {
                t.kinds.push(k);
                if CRUMBS.load(std::sync::atomic::Ordering::Relaxed) {
                    let mut d = format!("{:?}", case.machine.progmem[pc]);
                    d.truncate(120);
                    eprintln!("CRUMB {k} pc={pc} instr={d}");
                }
            }
            if t.pcs.len() < 64 {
                t.pcs.push(pc);
            }
        }
        match rs.step() {
            Ok(MachineStatus::Executing) => {
                if let Some(k) = kind {
                    tr.borrow_mut().ok_kinds.push(k);
                }
            }
            Ok(MachineStatus::Exited(ExitReason::Yield)) => {
                if let Some(k) = kind {
                    tr.borrow_mut().ok_kinds.push(k);
                }
                yields += 1;
                if yields > 8 {
                    tr.borrow_mut().end = "yield-cap".into();
                    return;
                }
            }
            Ok(MachineStatus::Exited(r)) => {
                if let Some(k) = kind {
                    tr.borrow_mut().ok_kinds.push(k);
                }
                tr.borrow_mut().end = format!("exit:{r}");
                return;
            }
            Err(e) => {
                tr.borrow_mut().end = format!("err:{}", err_kind(&e));
                return;
            }
        }
        // Resource guard (not a verdict): values can double per step (Dup + StructSet).
        if let Some(top) = rs.stack.as_slice().last()
            && vals::value_nodes(top, NODE_BUDGET) > NODE_BUDGET
        {
            tr.borrow_mut().end = "size-budget".into();
            return;
        }
    }
}

fn err_kind(e: &aranya_policy_vm::MachineError) -> String {
    let s = format!("{:?}", e.err_type);
    s.split(['(', ' ', '{']).next().unwrap_or("?").to_string()
}

fn exec_case(case: &Case, tr: &RefCell<Trace>, use_run: bool) {
    match &case.io {
        IoChoice::Chaos(r) => {
            let mut io = ChaosIO::new(r.clone());
            drive(case, &mut io, tr, use_run);
        }
        IoChoice::Rec => {
            let mut io = RecIO::new(ffi_sigs(&ffi_schemas()), case.machine.struct_defs.clone(), case.machine.enum_defs.clone());
            drive(case, &mut io, tr, use_run);
        }
    }
}

fn program_listing(m: &Machine, max: usize) -> Vec<String> {
    m.progmem.iter().take(max).enumerate().map(|(i, x)| format!("{i}: {x:?}")).collect()
}

/// Single-case replay: print the instruction about to execute, so a process abort can be
/// attributed to it.
static CRUMBS: std::sync::atomic::AtomicBool = std::sync::atomic::AtomicBool::new(false);

/// Record a violation, keeping at most two witnesses per signature in this process.
fn violation(m: &mut Monitor, sig: &str, detail: impl FnOnce() -> serde_json::Value) {
    let key = format!("sig {sig}");
    let n = m.counters.get(&key).copied().unwrap_or(0);
    m.count(&key, 1);
    if n < 2 {
        m.violation(sig, detail());
    }
}

fn run_case(m: &mut Monitor, seed: u64, idx: u64, compiled: &Compiled) {
    let mut rng = Rng::new(seed).fork(25).fork(idx);
    m.eval();
    let which = idx % 10;
    let mut tmp = m.worker();
    let built = catch(|| match which {
        0..=5 => Some(hand_built(&mut rng, idx)),
        6..=8 => mutated_module(&mut rng, compiled),
        _ => corrupted_serialized(&mut rng, compiled, &mut tmp),
    });
    m.absorb(tmp);
    let case = match built {
        Ok(Some(c)) => c,
        Ok(None) => {
            m.count("cases_not_buildable", 1);
            return;
        }
        Err(p) => {
            if p.site().starts_with("crates/") {
                violation(m, &format!("vm-load-panic:{}", p.site()), || json!({"case": idx, "phase": "build", "panic": p.what}));
            } else {
                m.inconclusive(&format!("harness panic while building case {idx}: {}", p.what));
            }
            return;
        }
    };
    m.count(&format!("mode_{}", case.mode), 1);
    for v in &case.stack {
        m.seen("stack_value_kinds", vals::value_kind(v));
    }
    let tr = RefCell::new(Trace::default());
    let r = catch(|| exec_case(&case, &tr, false));
    let t = tr.into_inner();
    for k in &t.kinds {
        m.seen("instr_kinds", k);
    }
    for k in &t.ok_kinds {
        m.seen("instr_kinds_ok", k);
    }
    m.max("max_steps", t.steps);
    m.count("steps_total", t.steps);
    let detail = |what: &str, panic: &str| {
        json!({
            "case": idx,
            "mode": case.mode,
            "note": case.note,
            "what": what,
            "panic": panic,
            "ctx": format!("{:?}", case.ctx),
            "entry": format!("{:?}", case.entry),
            "initial_stack": case.stack.iter().take(8).map(|v| format!("{v:?}")).collect::<Vec<_>>(),
            "pcs_executed": t.pcs,
            "last_kind": t.kinds.last(),
            "program": program_listing(&case.machine, 48),
        })
    };
    match r {
        Err(p) => {
            m.count("panics", 1);
            violation(m, &format!("vm-panic:{}", p.site()), || detail("step", &p.what));
        }
        Ok(()) => {
            let end = t.end.split(':').next().unwrap_or("").to_string();
            m.count(&format!("end_{end}"), 1);
            if t.end.starts_with("err:") || t.end.starts_with("setup-err:") {
                m.seen("error_kinds", t.end.split(':').nth(1).unwrap_or("?"));
            }
            if t.steps >= 2 {
                // executed past the first instruction: hash the executed kind sequence + mode
                m.nontrivial(hash_of(&(case.mode, &t.kinds, &t.end)));
            }
            // Programs that stop within the budget are also executed through `run()`.
            if t.end.starts_with("exit:") || t.end.starts_with("err:") {
                let tr2 = RefCell::new(Trace::default());
                if let Err(p) = catch(|| exec_case(&case, &tr2, true)) {
                    m.count("panics", 1);
                    violation(m, &format!("vm-panic:{}", p.site()), || detail("run", &p.what));
                } else {
                    m.count("also_via_run", 1);
                }
            }
        }
    }
    if idx % 997 == 3 {
        m.sample(|| json!({"case": idx, "mode": case.mode, "steps": t.steps, "end": t.end, "program": program_listing(&case.machine, 12)}));
    }
}

fn new_monitor() -> Monitor {
    Monitor::new(
        "C25",
        "programs: 60% hand-built Machines (1-24 snippets, instruction kind drawn uniformly from all 51 variants - Next/Last only in every 4th program - half bare with random operands, half behind a success-making prefix; operands from small name/label/address alphabets incl. out-of-range, self, unresolved targets; random initial stack over all 12 Value kinds; struct/fact/enum/command/action defs that agree, are missing or are retyped; random labels, globals, codemap spans, context kind), 30% compiled corpus modules with 1-4 instruction substitutions/deletions/duplications/swaps/operand or definition corruptions, 10% CBOR/rkyv-serialized modules with 1-3 corrupted bytes that still decode; entry at pc 0 / a label / setup_action / setup_command; ChaosIO answers queries and FFI calls with arbitrary results and errors; step() under a 4096-step and 20k-node budget, stopped programs re-run through run(). non-trivial = executed >= 2 instructions, distinct by (mode, executed kind sequence, end state)",
    )
    .min(20_000)
    .require("mode_hand", "hand-built machines must run")
    .require("mode_mutated", "mutated compiler output must run (corpus compiled?)")
    .require("mode_serialized", "some corrupted serialized modules must still decode and run")
    .require("also_via_run", "run() must be exercised as well as step()")
}

fn child_main(args: &Args, spec: shard::ShardSpec) -> ! {
    let mut m = new_monitor();
    m.max_violations = 64;
    let total = args.n(300_000, 6_000_000);
    let repo = repo_root(args);
    let seed = args.seed;
    CRUMBS.store(spec.only.is_some(), std::sync::atomic::Ordering::Relaxed);
    shard::on_stack(64 << 20, || {
        let compiled = compile_corpus(&repo);
        m.max("max_corpus_modules", compiled.modules.len() as u64);
        shard::child_loop(&spec, total, 1000, &mut m, |m, i| run_case(m, seed, i, &compiled));
    });
    std::process::exit(0)
}

fn main() {
    let args = Args::parse();
    if let Some(spec) = shard::shard_spec(&args) {
        child_main(&args, spec);
    }
    let mut m = new_monitor();
    m.max_violations = 100_000;
    let scratch = Scratch::new("polvm");
    let cap = Duration::from_secs(args.tier.pick(900, 5400));

    if let Some(r) = args.replay_case() {
        let case = r["case"]["case"].as_u64().expect("replay: case index");
        let mut a = args.clone();
        a.seed = r["seed"].as_u64().unwrap_or(args.seed);
        let specs = vec![(0u64, 1u64, vec![("only".to_string(), case.to_string())])];
        let out = shard::run_children(&a, "C25", &mut m, scratch.path(), &specs, 1, cap);
        if let ChildOutcome::Abnormal { stderr_tail, .. } = &out[0] {
            let kind = out[0].kind();
            let crumb = shard::last_crumb(stderr_tail).unwrap_or_else(|| "?".into());
            m.violation(
                &format!("vm-abort:{kind}:{}", crumb.split(' ').next().unwrap_or("?")),
                json!({"case": case, "what": "process abort while executing the case", "last_instruction": crumb, "stderr": stderr_tail}),
            );
        }
        finish_all(&args, vec![m]);
    }

    let n = cores() as u64;
    let reports = shard::run_resumable(&args, "C25", &mut m, scratch.path(), n, cap, 60);
    m.count("process_aborts", reports.len() as u64);
    for r in &reports {
        match r.confirmed {
            Some(false) => m.inconclusive(&format!(
                "shard {} died ({}) at case {} but the case alone completes: {}",
                r.shard, r.kind, r.case, r.stderr
            )),
            // Only the first three aborts of a kind are replayed alone; the rest are counted.
            None => m.count("process_aborts_not_replayed", 1),
            Some(true) => {
                let crumb = r.crumb.clone().unwrap_or_else(|| "?".into());
                m.violation(
                    &format!("vm-abort:{}:{}", r.kind, crumb.split(' ').next().unwrap_or("?")),
                    json!({"case": r.case, "shard": r.shard, "what": "process abort while executing the case (escapes catch_unwind)", "last_instruction": crumb, "confirmed_alone": r.confirmed, "stderr": r.stderr}),
                );
            }
        }
    }
    // Keep at most two witnesses per signature so every distinct site is reported.
    let mut per: BTreeMap<String, usize> = BTreeMap::new();
    m.violations.retain(|v| {
        let c = per.entry(v.signature.clone()).or_insert(0);
        *c += 1;
        *c <= 2
    });
    m.violations.truncate(24);
    let seen = m.sets.get("instr_kinds").map(|s| s.len()).unwrap_or(0);
    m.max("max_instr_kinds_total", KINDS.len() as u64);
    if seen < KINDS.len() {
        m.inconclusive(&format!("only {seen} of {} instruction kinds were executed", KINDS.len()));
    }
    finish_all(&args, vec![m]);
}
