//! C27: policy front ends are total.
//!
//! Every input (<= 4 KiB) goes through `parse_policy_document`, `parse_policy_str` (V1, V2),
//! `parse_expression` and, when a policy parses, `Compiler::compile` with and without
//! `stub_ffi`, on an 8 MiB-stack thread inside a shard child process. Oracle: `Ok` or `Err`,
//! no panic (`catch`), no abort (child exit status). Nesting depth is swept separately, one
//! child process per (construct, depth).
use std::{collections::BTreeMap, time::Duration};

use aranya_policy_ast::{Policy, Version};
use aranya_policy_compiler::Compiler;
use aranya_policy_lang::lang::{parse_expression, parse_policy_document, parse_policy_str};
use aranya_policy_vm::ffi::ModuleSchema;
use polvm::{
    corpus::{self, Doc, MAX_INPUT},
    ffi_schemas, repo_root,
    shard::{self, ChildOutcome},
};
use vcore::*;

const STACK: usize = 8 << 20;

fn violation(m: &mut Monitor, sig: &str, detail: impl FnOnce() -> Value) {
    let key = format!("sig {sig}");
    let n = m.counters.get(&key).copied().unwrap_or(0);
    m.count(&key, 1);
    if n < 2 {
        m.violation(sig, detail());
    }
}

/// Panic site without the machine-specific registry prefix (third-party crates).
fn site(p: &PanicInfo) -> String {
    let s = p.site();
    match s.find("/registry/src/") {
        Some(i) => s[i + 14..].split_once('/').map(|x| x.1.to_string()).unwrap_or(s),
        None => s,
    }
}

fn err_class(msg: &str) -> String {
    // "error: invalid type: int" -> "invalid type"; coverage only
    let l = msg.lines().next().unwrap_or("");
    let l = l.strip_prefix("error: ").unwrap_or(l);
    let l = l.split([':', '`', '\'', '"']).next().unwrap_or("");
    l.chars().filter(|c| !c.is_ascii_digit()).take(48).collect::<String>().trim().to_string()
}

static CRUMBS: std::sync::atomic::AtomicBool = std::sync::atomic::AtomicBool::new(false);

/// In single-case / sweep children: name the stage about to run, so an abort can be attributed.
fn crumb(stage: &str) {
    if CRUMBS.load(std::sync::atomic::Ordering::Relaxed) {
        eprintln!("CRUMB {stage}");
    }
}

struct Outcome {
    /// something parsed / compiled (for the non-triviality rule)
    parsed: bool,
    compiled: bool,
}

/// Push one input through all front ends. Returns what was reached.
fn front_ends(m: &mut Monitor, schemas: &[ModuleSchema<'static>], text: &str, ident: &Value) -> Outcome {
    let mut out = Outcome { parsed: false, compiled: false };
    let mut policies: Vec<(&'static str, Policy)> = vec![];
    #[allow(deprecated)]
    let v1 = Version::V1;
    type P = fn(&str) -> Result<Policy, aranya_policy_lang::lang::ParseError>;
    let parsers: [(&'static str, P); 3] = [
        ("parse_policy_document", |s| parse_policy_document(s)),
        ("parse_policy_str(V2)", |s| parse_policy_str(s, Version::V2)),
        ("parse_policy_str(V1)", |s| {
            #[allow(deprecated)]
            parse_policy_str(s, Version::V1)
        }),
    ];
    let _ = v1;
    for (name, f) in parsers {
        crumb(name);
        match catch(|| f(text)) {
            Err(p) => violation(m, &format!("parse-panic:{}", site(&p)), || json!({"front_end": name, "input": text, "panic": p.what, "id": ident})),
            Ok(Ok(pol)) => {
                m.count(&format!("ok {name}"), 1);
                out.parsed = true;
                policies.push((name, pol));
            }
            Ok(Err(e)) => {
                m.count(&format!("err {name}"), 1);
                m.seen("parse_error_kinds", format!("{:?}", e.kind).split(['(', ' ', '{']).next().unwrap_or("?"));
                match catch(|| e.to_string()) {
                    Ok(_) => {}
                    Err(p) => {
                        // Formatting the returned error is outside the property statement.
                        m.count("aux_error_display_panics", 1);
                        m.seen("aux_error_display_panic_sites", &site(&p));
                        if text.len() < 24 && m.sets.get("aux_error_display_panic_small_inputs").is_none_or(|s| s.len() < 4) {
                            m.seen("aux_error_display_panic_small_inputs", &format!("{name}: {text:?}"));
                        }
                    }
                }
            }
        }
    }
    crumb("parse_expression");
    match catch(|| parse_expression(text)) {
        Err(p) => violation(m, &format!("parse-panic:{}", site(&p)), || json!({"front_end": "parse_expression", "input": text, "panic": p.what, "id": ident})),
        Ok(Ok(_)) => {
            m.count("ok parse_expression", 1);
            out.parsed = true;
        }
        Ok(Err(e)) => {
            m.count("err parse_expression", 1);
            if catch(|| e.to_string()).is_err() {
                m.count("aux_error_display_panics", 1);
            }
        }
    }
    for (name, pol) in &policies {
        for stub in [false, true] {
            crumb(&format!("{name}->compile(stub_ffi={stub})"));
            let r = catch(|| Compiler::new(pol).ffi_modules(schemas).debug(true).stub_ffi(stub).compile());
            match r {
                Err(p) => violation(m, &format!("compile-panic:{}", site(&p)), || {
                    json!({"front_end": format!("{name} -> compile(stub_ffi={stub})"), "input": text, "panic": p.what, "id": ident})
                }),
                Ok(Ok(_)) => {
                    m.count("compile_ok", 1);
                    out.compiled = true;
                }
                Ok(Err(e)) => {
                    m.count("compile_err", 1);
                    match catch(|| e.to_string()) {
                        Ok(s) => m.seen("compile_error_classes", &err_class(&s)),
                        Err(p) => {
                            m.count("aux_error_display_panics", 1);
                            m.seen("aux_error_display_panic_sites", &site(&p));
                        }
                    }
                }
            }
        }
        // the interface-only entry point shares the definition passes
        crumb(&format!("{name}->compile_interface"));
        if let Err(p) = catch(|| Compiler::new(pol).ffi_modules(schemas).debug(true).compile_interface().map(|_| ())) {
            violation(m, &format!("compile-panic:{}", site(&p)), || json!({"front_end": format!("{name} -> compile_interface"), "input": text, "panic": p.what, "id": ident}));
        }
    }
    out
}

fn run_case(m: &mut Monitor, seed: u64, idx: u64, corpus: &[Doc], schemas: &[ModuleSchema<'static>]) {
    let mut rng = Rng::new(seed).fork(27).fork(idx);
    let inp = corpus::gen_front_input(&mut rng, idx, corpus);
    debug_assert!(inp.text.len() <= MAX_INPUT);
    m.eval();
    m.count(&format!("class_{}", inp.class), 1);
    m.max("max_input_len", inp.text.len() as u64);
    let ident = json!({"case": idx, "class": inp.class, "detail": inp.detail});
    let o = front_ends(m, schemas, &inp.text, &ident);
    if o.parsed {
        m.count(&format!("parsed_{}", inp.class), 1);
    }
    if o.compiled {
        m.count(&format!("compiled_{}", inp.class), 1);
    }
    // Every distinct text is a distinct point of the input space; the interesting ones got past
    // the grammar in at least one front end.
    if o.parsed {
        m.nontrivial(hash_of(&inp.text));
    }
    if idx % 9973 == 11 {
        m.sample(|| json!({"case": idx, "class": inp.class, "detail": inp.detail, "parsed": o.parsed, "compiled": o.compiled, "input_head": inp.text.chars().take(200).collect::<String>()}));
    }
}

// ------------------------------------------------------------------------------ nesting sweep

const SWEEP_KINDS: &[&str] = &[
    "parens", "some", "not", "block-expr", "if-expr", "if-stmt", "match-stmt", "option-type", "binary-chain", "dot-chain",
];

/// (expression-only text, policy text) at nesting depth `d`.
fn nested(kind: &str, d: usize) -> (Option<String>, String) {
    let wrap = |e: &str| format!("function f() int {{\n    let x = {e}\n    return 1\n}}\n");
    match kind {
        "parens" => {
            let e = format!("{}1{}", "(".repeat(d), ")".repeat(d));
            (Some(e.clone()), wrap(&e))
        }
        "some" => {
            let e = format!("{}1{}", "Some(".repeat(d), ")".repeat(d));
            (Some(e.clone()), wrap(&e))
        }
        "not" => {
            let e = format!("{}true", "!".repeat(d));
            (Some(e.clone()), wrap(&e))
        }
        "block-expr" => {
            let e = format!("{}1{}", "{:".repeat(d), "}".repeat(d));
            (Some(e.clone()), wrap(&e))
        }
        "if-expr" => {
            let e = format!("{}1{}", "if true{:".repeat(d), "}else{:0}".repeat(d));
            (Some(e.clone()), wrap(&e))
        }
        "if-stmt" => (None, format!("function f() int {{\n{}{}\n    return 1\n}}\n", "if true{".repeat(d), "}".repeat(d))),
        "match-stmt" => (None, format!("function f() int {{\n{}{}\n    return 1\n}}\n", "match 1{_=>{".repeat(d), "}}".repeat(d))),
        "option-type" => (None, format!("struct S {{ a {}int{} }}\n", "option[".repeat(d), "]".repeat(d))),
        "binary-chain" => {
            let e = format!("1{}", "+1".repeat(d));
            (Some(e.clone()), wrap(&e))
        }
        "dot-chain" => {
            let e = format!("a{}", ".b".repeat(d));
            (Some(e.clone()), format!("function f(a struct S) int {{\n    let x = {e}\n    return 1\n}}\n"))
        }
        other => panic!("unknown sweep kind {other}"),
    }
}

fn sweep_child(m: &mut Monitor, kind: &str, depth: usize) {
    let schemas = ffi_schemas();
    let (expr, policy) = nested(kind, depth);
    m.eval();
    let ident = json!({"sweep": kind, "depth": depth});
    shard::on_stack(STACK, || {
        if let Some(e) = &expr {
            crumb("parse_expression(expr-only)");
            match catch(|| parse_expression(e).is_ok()) {
                Ok(ok) => m.count(if ok { "sweep_expr_ok" } else { "sweep_expr_err" }, 1),
                Err(p) => m.violation(&format!("parse-panic:{}", site(&p)), json!({"front_end": "parse_expression", "sweep": kind, "depth": depth, "panic": p.what})),
            }
        }
        let o = front_ends(m, &schemas, &policy, &ident);
        m.count(if o.parsed { "sweep_policy_parsed" } else { "sweep_policy_rejected" }, 1);
        if o.compiled {
            m.count("sweep_policy_compiled", 1);
        }
    });
}

/// Depths to try for a construct: a few inside the 4 KiB bound (the largest one that fits
/// included), then doubling beyond it.
fn sweep_depths(kind: &str, quick: bool) -> Vec<usize> {
    let fits = |d: usize| {
        let (e, p) = nested(kind, d);
        e.map(|e| e.len()).unwrap_or(0).max(p.len()) <= MAX_INPUT
    };
    let mut hi = 1;
    while fits(hi * 2) {
        hi *= 2;
    }
    let mut d4k = hi;
    let mut step = hi;
    while step > 0 {
        if fits(d4k + step) {
            d4k += step;
        }
        step /= 2;
    }
    let mut v = vec![d4k / 4, d4k / 2, d4k];
    let mut d = d4k;
    let max_bytes = if quick { 1 << 16 } else { 1 << 20 };
    loop {
        d *= 2;
        let (e, p) = nested(kind, d);
        if e.map(|e| e.len()).unwrap_or(0).max(p.len()) > max_bytes {
            break;
        }
        v.push(d);
    }
    v.retain(|x| *x > 0);
    v
}

fn new_monitor() -> Monitor {
    Monitor::new(
        "C27",
        "inputs <= 4 KiB: 60% repo policy corpus (files, markdown documents, policy snippets of the policy crates' tests; large documents cut to a selection of top-level items) with 1-3 grammar-aware mutations (token delete/dup/swap, brace insert/delete, keyword substitution, unicode, NUL, CR/CRLF, long identifiers, front-matter and code-fence corruption, number/string-escape edge cases, span deletion, cross-document splicing; 10% unmutated), 20% generated small programs and expressions that are deliberately ill-typed/ill-scoped (wrong types, undefined and duplicate names, recursion, wrong arity, misplaced finish/publish/recall/return, cyclic structs), 20% random bytes/UTF-8/token soup; each through parse_policy_document, parse_policy_str V1+V2, parse_expression, and every parsed policy through compile (stub_ffi on/off, debug on) and compile_interface, on an 8 MiB stack in a child process; plus a nesting-depth sweep (11 constructs, depths from inside the 4 KiB bound to 256 KiB+, one child process each). non-trivial = distinct input text that at least one front end parsed",
    )
    .min(5_000)
    .require("ok parse_policy_document", "some documents must parse")
    .require("ok parse_policy_str(V2)", "some sources must parse")
    .require("ok parse_expression", "some expressions must parse")
    .require("compile_ok", "some policies must compile")
    .require("compile_err", "compiler error paths must be reached")
    .require("sweep_runs", "the nesting sweep must run")
}

fn child_main(args: &Args, spec: shard::ShardSpec) -> ! {
    let mut m = new_monitor();
    m.max_violations = 64;
    CRUMBS.store(spec.only.is_some() || args.get("sweep").is_some(), std::sync::atomic::Ordering::Relaxed);
    if let Some(sw) = args.get("sweep") {
        let (kind, depth) = sw.split_once(':').expect("sweep=kind:depth");
        sweep_child(&mut m, kind, depth.parse().expect("depth"));
        shard::dump_monitor(&m, &spec.dump);
        std::process::exit(0);
    }
    let total = args.n(250_000, 6_000_000);
    let repo = repo_root(args);
    let seed = args.seed;
    let corpus = corpus::load_corpus(&repo);
    let schemas = ffi_schemas();
    m.max("max_corpus_docs", corpus.len() as u64);
    shard::on_stack(STACK, || {
        shard::child_loop(&spec, total, 500, &mut m, |m, i| run_case(m, seed, i, &corpus, &schemas));
    });
    std::process::exit(0)
}

static SHOWN: std::sync::atomic::AtomicU64 = std::sync::atomic::AtomicU64::new(0);

/// Development aid: `--set dumpgen=N` prints generated programs and what the compiler says.
fn dumpgen(args: &Args, n: u64) -> ! {
    let schemas = ffi_schemas();
    let mut ok = 0;
    let mut errs: BTreeMap<String, u64> = BTreeMap::new();
    for i in 0..n {
        let mut rng = Rng::new(args.seed).fork(i);
        let mut g = corpus::ProgGen::new(&mut rng);
        g.wrong = args.get_u64("wrong", 0);
        let (p, _) = g.program();
        let r = match parse_policy_str(&p, Version::V2) {
            Err(e) => format!("PARSE {}", e.to_string().lines().take(12).collect::<Vec<_>>().join(" / ")),
            Ok(pol) => match Compiler::new(&pol).ffi_modules(&schemas).debug(true).compile() {
                Ok(_) => {
                    ok += 1;
                    "OK".to_string()
                }
                Err(e) => catch(|| e.to_string()).unwrap_or_else(|p| format!("DISPLAY PANIC {}", p.what)).lines().take(4).collect::<Vec<_>>().join(" / "),
            },
        };
        let key: String = if r.starts_with("error") { r.split(" / ").map(|x| x.trim_start_matches(|c: char| c.is_ascii_digit() || c == ' ' || c == '|')).filter(|x| !x.is_empty()).take(4).collect::<Vec<_>>().join(" / ").chars().take(150).collect() } else { r.chars().take(60).collect() };
        *errs.entry(key).or_insert(0) += 1;
        if i < args.get_u64("show", 3) || (args.get("grep").is_some_and(|g| r.contains(g)) && { SHOWN.fetch_add(1, std::sync::atomic::Ordering::Relaxed) < 3 }) {
            println!("----- {i}: {r}\n{p}");
        }
    }
    println!("accepted {ok}/{n}");
    let mut v: Vec<_> = errs.into_iter().collect();
    v.sort_by_key(|x| std::cmp::Reverse(x.1));
    for (k, c) in v.iter().take(25) {
        println!("{c:6} {k}");
    }
    std::process::exit(0)
}

fn main() {
    let args = Args::parse();
    if let Some(n) = args.get("dumpgen") {
        dumpgen(&args, n.parse().unwrap());
    }
    if let Some(spec) = shard::shard_spec(&args) {
        child_main(&args, spec);
    }
    let mut m = new_monitor();
    m.max_violations = 100_000;
    let scratch = Scratch::new("polfront");
    let cap = Duration::from_secs(args.tier.pick(900, 5400));
    let repo = repo_root(&args);

    if let Some(r) = args.replay_case() {
        let c = &r["case"];
        let mut a = args.clone();
        a.seed = r["seed"].as_u64().unwrap_or(args.seed);
        let id = if c["id"].is_object() { &c["id"] } else { c };
        let specs = if let Some(k) = id["sweep"].as_str() {
            vec![(0u64, 1u64, vec![("sweep".to_string(), format!("{k}:{}", id["depth"].as_u64().unwrap_or(1)))])]
        } else {
            vec![(0u64, 1u64, vec![("only".to_string(), id["case"].as_u64().expect("replay: case").to_string())])]
        };
        let out = shard::run_children(&a, "C27", &mut m, scratch.path(), &specs, 1, cap);
        if let ChildOutcome::Abnormal { stderr_tail, .. } = &out[0] {
            m.violation(&format!("front-abort:{}", out[0].kind()), json!({"id": id, "stderr": stderr_tail}));
        }
        finish_all(&args, vec![m]);
    }

    // ---- workload shards
    let n = cores() as u64;
    let t0 = std::time::Instant::now();
    let reports = shard::run_resumable(&args, "C27", &mut m, scratch.path(), n, cap, 40);
    eprintln!("[pol_front] workload {:.1}s", t0.elapsed().as_secs_f64());
    m.count("process_aborts", reports.len() as u64);
    if !reports.is_empty() {
        let corpus = corpus::load_corpus(&repo);
        for r in &reports {
            if r.confirmed == Some(false) {
                m.inconclusive(&format!("shard {} died ({}) at case {} but the case alone completes: {}", r.shard, r.kind, r.case, r.stderr));
                continue;
            }
            if r.confirmed.is_none() {
                m.count("process_aborts_not_replayed", 1);
                continue;
            }
            let mut rng = Rng::new(args.seed).fork(27).fork(r.case);
            let inp = corpus::gen_front_input(&mut rng, r.case, &corpus);
            // Inputs are <= 4 KiB and ran on an 8 MiB stack: a hard violation whatever the cause.
            m.violation(
                &format!("front-abort:{}", r.kind),
                json!({"id": {"case": r.case, "class": inp.class, "detail": inp.detail}, "input": inp.text, "what": "process abort on an input <= 4 KiB with an 8 MiB stack", "stderr": r.stderr}),
            );
        }
    }

    // ---- aux: parse time of nested struct literals (grows exponentially; no verdict attached)
    for d in [8usize, 12, 16] {
        let e = format!("{}1{}", "S{a:".repeat(d), "}".repeat(d));
        let t0 = std::time::Instant::now();
        let _ = catch(|| parse_expression(&e).is_ok());
        m.max(&format!("max_aux_struct_literal_depth{d}_parse_ms"), t0.elapsed().as_millis() as u64);
    }

    // ---- nesting sweep, one child per (construct, depth)
    let quick = args.tier == Tier::Quick;
    let mut pairs: Vec<(String, usize)> = vec![];
    for k in SWEEP_KINDS {
        for d in sweep_depths(k, quick) {
            pairs.push((k.to_string(), d));
        }
    }
    let specs: Vec<_> = pairs
        .iter()
        .enumerate()
        .map(|(i, (k, d))| (i as u64, pairs.len() as u64, vec![("sweep".to_string(), format!("{k}:{d}"))]))
        .collect();
    let sweep_cap = Duration::from_secs(args.tier.pick(30, 600));
    let t0 = std::time::Instant::now();
    let out = shard::run_children(&args, "C27", &mut m, scratch.path(), &specs, cores(), sweep_cap);
    eprintln!("[pol_front] sweep {:.1}s over {} children", t0.elapsed().as_secs_f64(), specs.len());
    // per construct: deepest pass, shallowest failure
    #[derive(Default)]
    struct K {
        pass: usize,
        fail: Option<(usize, usize, String, String)>,
        timeouts: u64,
    }
    let mut per: BTreeMap<String, K> = BTreeMap::new();
    for ((kind, depth), o) in pairs.iter().zip(&out) {
        m.count("sweep_runs", 1);
        let e = per.entry(kind.clone()).or_default();
        let (ex, p) = nested(kind, *depth);
        let bytes = ex.map(|e| e.len()).unwrap_or(0).max(p.len());
        match o {
            ChildOutcome::Done => e.pass = e.pass.max(*depth),
            ChildOutcome::TimedOut { .. } => {
                e.timeouts += 1;
                m.count("sweep_timeouts", 1);
            }
            ChildOutcome::Abnormal { stderr_tail, .. } => {
                let kindname = o.kind();
                if e.fail.as_ref().is_none_or(|f| *depth < f.0) {
                    e.fail = Some((*depth, bytes, kindname, shard::last_crumb(stderr_tail).unwrap_or_else(|| "?".into())));
                }
            }
        }
    }
    let mut beyond = vec![];
    for (kind, k) in &per {
        m.max(&format!("max_sweep_pass_depth {kind}"), k.pass as u64);
        let Some((depth, bytes, how, stage)) = &k.fail else { continue };
        if *bytes <= MAX_INPUT {
            m.violation(
                &format!("front-abort-within-4KiB:{how}:{kind}"),
                json!({"id": {"sweep": kind, "depth": depth}, "bytes": bytes, "stage": stage, "what": "process abort at a nesting depth whose input fits in 4 KiB, on an 8 MiB stack", "deepest_pass": k.pass}),
            );
        } else if how == "stack-overflow" || how.starts_with("signal-11") || how.starts_with("signal-6") {
            beyond.push(json!({"construct": kind, "shallowest_failing_depth": depth, "input_bytes": bytes, "deepest_passing_depth": k.pass, "how": how, "stage": stage}));
        } else {
            m.violation(&format!("front-abort:{how}"), json!({"id": {"sweep": kind, "depth": depth}, "bytes": bytes}));
        }
    }
    if !beyond.is_empty() {
        let first = &beyond[0];
        m.violation(
            "front-stack-overflow:nesting-depth",
            json!({
                "id": {"sweep": first["construct"], "depth": first["shallowest_failing_depth"]},
                "what": "parser/compiler recursion exhausts an 8 MiB stack, only for inputs larger than 4 KiB",
                "constructs": beyond,
            }),
        );
    }
    if let Some(s) = m.sets.get_mut("aux_error_display_panic_small_inputs") {
        while s.len() > 4 {
            s.pop_last();
        }
    }
    // at most two witnesses per signature
    let mut seen: BTreeMap<String, usize> = BTreeMap::new();
    m.violations.retain(|v| {
        let c = seen.entry(v.signature.clone()).or_insert(0);
        *c += 1;
        *c <= 2
    });
    m.violations.truncate(24);
    finish_all(&args, vec![m]);
}
