//! C26: command struct serialization round-trips and rejects bad input.
//!
//! Positive: random acyclic schemas + conforming values, `deserialize(serialize(v)) == v`.
//! Negative: malformations are *constructed structurally* from an independent model of the
//! encoding (schema-ordered postcard: zig-zag LEB128 ints, LEB128 lengths, 1-byte bool /
//! option / result tags, ids as `32 || bytes`), which is first checked byte-for-byte against the
//! real serializer. Each malformation must give `Err`, never `Ok`, never a panic.
use aranya_policy_vm::{
    EnumDef, Field, Identifier, Machine, ResultTypeKind, Struct, StructDef, TypeKind, Value,
};
use polvm::vals::{self, Defs, ident};
use vcore::*;

// ------------------------------------------------------------------------------ schema

struct Schema {
    machine: Machine,
    top: Identifier,
    shape: u64,
}

fn gen_type(rng: &mut Rng, n_structs_below: usize, n_enums: usize, depth: u32) -> TypeKind {
    let k = if depth >= 3 { rng.below(7) } else { rng.below(12) };
    match k {
        0 => TypeKind::Int,
        1 => TypeKind::Bool,
        2 => TypeKind::String,
        3 => TypeKind::Bytes,
        4 => TypeKind::Id,
        5 => TypeKind::Unit,
        6 if n_enums > 0 => TypeKind::Enum(ident(&format!("E{}", rng.usize(n_enums)))),
        7 | 8 if n_structs_below > 0 => TypeKind::Struct(ident(&format!("S{}", rng.usize(n_structs_below)))),
        9 => TypeKind::Optional(Box::new(if rng.chance(1, 12) {
            TypeKind::Never
        } else {
            gen_type(rng, n_structs_below, n_enums, depth + 1)
        })),
        10 => {
            let ok = gen_type(rng, n_structs_below, n_enums, depth + 1);
            let err = if rng.chance(1, 10) { TypeKind::Never } else { gen_type(rng, n_structs_below, n_enums, depth + 1) };
            TypeKind::Result(Box::new(ResultTypeKind { ok, err }))
        }
        _ => match rng.below(3) {
            0 => TypeKind::Int,
            1 => TypeKind::String,
            _ => TypeKind::Id,
        },
    }
}

fn gen_schema(rng: &mut Rng) -> Schema {
    let mut machine = Machine::new([]);
    let n_enums = rng.usize(3);
    for e in 0..n_enums {
        let nv = rng.urange(1, 5);
        let mut variants = vec![];
        let mut next = 0i64;
        for v in 0..nv {
            let val = match rng.below(6) {
                0 => vals::gen_int(rng),
                1 => next.wrapping_add(rng.range(2, 1000) as i64),
                _ => next,
            };
            next = val.wrapping_add(1);
            variants.push((ident(&format!("V{v}")), val));
        }
        machine.enum_defs.insert(EnumDef { name: ident(&format!("E{e}")), variants });
    }
    let n_structs = rng.urange(1, 5);
    for s in 0..n_structs {
        let nf = if s + 1 == n_structs { rng.urange(1, 7) } else { rng.usize(5) };
        let items = (0..nf)
            .map(|f| Field { name: ident(&format!("f{f}")), ty: gen_type(rng, s, n_enums, 0) })
            .collect();
        machine.struct_defs.insert(StructDef { name: ident(&format!("S{s}")), items });
    }
    let top = ident(&format!("S{}", n_structs - 1));
    let shape = hash_of(&format!(
        "{:?}{:?}",
        machine.struct_defs.iter().collect::<Vec<_>>(),
        machine.enum_defs.iter().collect::<Vec<_>>()
    ));
    Schema { machine, top, shape }
}

// ------------------------------------------------------------------------------ model encoder

#[derive(Clone, Debug, PartialEq)]
enum MarkKind {
    OptTag,
    ResTag,
    Enum(Identifier),
    /// length prefix + body of a string
    Str { len_len: usize },
    IdLen,
}

#[derive(Clone, Debug)]
struct Mark {
    kind: MarkKind,
    off: usize,
    /// total bytes covered (tag: 1, enum: varint length, str: prefix + body, id: 33)
    len: usize,
}

fn varint(mut x: u64, out: &mut Vec<u8>) {
    loop {
        let b = (x & 0x7f) as u8;
        x >>= 7;
        if x == 0 {
            out.push(b);
            return;
        }
        out.push(b | 0x80);
    }
}

fn zigzag(n: i64) -> u64 {
    ((n << 1) ^ (n >> 63)) as u64
}

fn enc_struct(m: &Machine, s: &Struct, out: &mut Vec<u8>, marks: &mut Vec<Mark>) -> Option<()> {
    let def = m.struct_defs.get(&s.name)?;
    for f in &def.items {
        enc_value(m, &f.ty, s.fields.get(&f.name)?, out, marks)?;
    }
    Some(())
}

fn enc_value(m: &Machine, ty: &TypeKind, v: &Value, out: &mut Vec<u8>, marks: &mut Vec<Mark>) -> Option<()> {
    match (ty, v) {
        (TypeKind::Unit, Value::Unit) => {}
        (TypeKind::Int, Value::Int(x)) => varint(zigzag(*x), out),
        (TypeKind::Bool, Value::Bool(b)) => out.push(*b as u8),
        (TypeKind::String, Value::String(t)) => {
            let off = out.len();
            varint(t.as_str().len() as u64, out);
            let len_len = out.len() - off;
            out.extend_from_slice(t.as_str().as_bytes());
            marks.push(Mark { kind: MarkKind::Str { len_len }, off, len: out.len() - off });
        }
        (TypeKind::Bytes, Value::Bytes(b)) => {
            varint(b.len() as u64, out);
            out.extend_from_slice(b);
        }
        (TypeKind::Id, Value::Id(id)) => {
            marks.push(Mark { kind: MarkKind::IdLen, off: out.len(), len: 33 });
            out.push(32);
            out.extend_from_slice(id.as_bytes());
        }
        (TypeKind::Struct(_), Value::Struct(s)) => enc_struct(m, s, out, marks)?,
        (TypeKind::Enum(name), Value::Enum(_, x)) => {
            let off = out.len();
            varint(zigzag(*x), out);
            marks.push(Mark { kind: MarkKind::Enum(name.clone()), off, len: out.len() - off });
        }
        (TypeKind::Optional(inner), Value::Option(o)) => {
            marks.push(Mark { kind: MarkKind::OptTag, off: out.len(), len: 1 });
            match o {
                None => out.push(0),
                Some(x) => {
                    out.push(1);
                    enc_value(m, inner, x, out, marks)?;
                }
            }
        }
        (TypeKind::Result(r), Value::Result(x)) => {
            marks.push(Mark { kind: MarkKind::ResTag, off: out.len(), len: 1 });
            match x {
                Ok(x) => {
                    out.push(0);
                    enc_value(m, &r.ok, x, out, marks)?;
                }
                Err(x) => {
                    out.push(1);
                    enc_value(m, &r.err, x, out, marks)?;
                }
            }
        }
        _ => return None,
    }
    Some(())
}

fn splice(bytes: &[u8], off: usize, len: usize, with: &[u8]) -> Vec<u8> {
    let mut v = bytes[..off].to_vec();
    v.extend_from_slice(with);
    v.extend_from_slice(&bytes[off + len..]);
    v
}

const BAD_UTF8: &[&[u8]] = &[
    &[0xff],
    &[0xc3],
    &[0xe2, 0x82],
    &[0xc0, 0x80],
    &[0xed, 0xa0, 0x80],
    &[0xf4, 0x90, 0x80, 0x80],
    &[b'a', 0x80, b'b'],
    &[0xf0, 0x9f, 0x98],
];

// ------------------------------------------------------------------------------ checks

struct Ctx<'a> {
    m: &'a mut Monitor,
    case: u64,
}

impl Ctx<'_> {
    fn viol(&mut self, sig: &str, schema: &Schema, extra: serde_json::Value) {
        self.m.violation(
            sig,
            json!({
                "case": self.case,
                "top": schema.top.to_string(),
                "structs": schema.machine.struct_defs.iter().map(|d| format!("{d:?}")).collect::<Vec<_>>(),
                "enums": schema.machine.enum_defs.iter().map(|d| format!("{d:?}")).collect::<Vec<_>>(),
                "extra": extra,
            }),
        );
    }

    /// `bytes` is malformed in class `class`: deserialization must be `Err` and must not panic.
    fn must_reject(&mut self, schema: &Schema, class: &str, bytes: &[u8]) {
        self.m.count(&format!("neg_{class}"), 1);
        match catch(|| schema.machine.deserialize_struct(schema.top.clone(), bytes)) {
            Err(p) => self.viol(&format!("deser-panic:{}", p.site()), schema, json!({"class": class, "bytes": hex(bytes), "panic": p.what})),
            Ok(Ok(v)) => self.viol(&format!("deser-accepts:{class}"), schema, json!({"bytes": hex(bytes), "decoded": format!("{v:?}")})),
            Ok(Err(_)) => {}
        }
    }

    /// Arbitrary bytes: no panic; and whatever is accepted conforms and round-trips.
    fn arbitrary(&mut self, schema: &Schema, bytes: &[u8]) {
        match catch(|| schema.machine.deserialize_struct(schema.top.clone(), bytes)) {
            Err(p) => self.viol(&format!("deser-panic:{}", p.site()), schema, json!({"class": "arbitrary", "bytes": hex(bytes), "panic": p.what})),
            Ok(Err(_)) => self.m.count("arbitrary_rejected", 1),
            Ok(Ok(v)) => {
                self.m.count("arbitrary_accepted", 1);
                match catch(|| schema.machine.serialize_struct(&v)) {
                    Err(p) => self.viol(&format!("ser-panic:{}", p.site()), schema, json!({"value": format!("{v:?}"), "panic": p.what})),
                    Ok(Err(e)) => self.viol("ser-rejects-decoded-value", schema, json!({"bytes": hex(bytes), "value": format!("{v:?}"), "err": e.to_string()})),
                    Ok(Ok(b2)) => match catch(|| schema.machine.deserialize_struct(schema.top.clone(), &b2)) {
                        Ok(Ok(v2)) if v2 == v => {}
                        other => self.viol("ser-roundtrip-mismatch", schema, json!({"via": "decoded arbitrary bytes", "bytes": hex(bytes), "reencoded": hex(&b2), "got": format!("{other:?}")})),
                    },
                }
            }
        }
    }
}

fn run_case(m: &mut Monitor, seed: u64, case: u64, light: bool) {
    let mut rng = Rng::new(seed).fork(26).fork(case);
    let schema = gen_schema(&mut rng);
    let defs = Defs { structs: &schema.machine.struct_defs, enums: &schema.machine.enum_defs };
    let mut cx = Ctx { m, case };
    // several values per schema
    for _ in 0..rng.urange(1, 4) {
        cx.m.eval();
        let Some(val) = vals::gen_struct(&mut rng, &schema.top, &defs, 0) else {
            cx.m.count("schemas_without_values", 1);
            return;
        };
        // --- positive: round trip
        let bytes = match catch(|| schema.machine.serialize_struct(&val)) {
            Err(p) => {
                cx.viol(&format!("ser-panic:{}", p.site()), &schema, json!({"value": format!("{val:?}"), "panic": p.what}));
                continue;
            }
            Ok(Err(e)) => {
                cx.viol("ser-rejects-conforming-value", &schema, json!({"value": format!("{val:?}"), "err": e.to_string()}));
                continue;
            }
            Ok(Ok(b)) => b,
        };
        match catch(|| schema.machine.deserialize_struct(schema.top.clone(), &bytes)) {
            Err(p) => {
                cx.viol(&format!("deser-panic:{}", p.site()), &schema, json!({"class": "valid", "bytes": hex(&bytes), "panic": p.what}));
                continue;
            }
            Ok(Ok(back)) if back == val => {}
            Ok(other) => {
                cx.viol("ser-roundtrip-mismatch", &schema, json!({"value": format!("{val:?}"), "bytes": hex(&bytes), "got": format!("{other:?}")}));
                continue;
            }
        }
        cx.m.nontrivial(mix2(schema.shape, hash_of(&bytes)));
        cx.m.max("max_encoded_len", bytes.len() as u64);
        if case % 4001 == 7 {
            cx.m.sample(|| json!({"top": format!("{:?}", schema.machine.struct_defs.get(&schema.top)), "value": format!("{val:?}"), "bytes": hex(&bytes)}));
        }

        // --- the independent model must reproduce the bytes, else the structural negatives
        // would be built on sand
        let mut model = vec![];
        let mut marks = vec![];
        if enc_struct(&schema.machine, &val, &mut model, &mut marks).is_none() || model != bytes {
            cx.m.count("model_disagrees", 1);
            cx.m.inconclusive(&format!("case {case}: encoding model disagrees with serialize_struct (model {}, real {})", hex(&model), hex(&bytes)));
            continue;
        }
        cx.m.count("model_agrees", 1);

        // --- negative: truncation at every prefix
        let prefixes: Vec<usize> = if light && bytes.len() > 24 {
            (0..24).map(|_| rng.usize(bytes.len())).collect()
        } else {
            (0..bytes.len()).collect()
        };
        for k in prefixes {
            cx.must_reject(&schema, "truncation", &bytes[..k]);
        }
        // --- trailing bytes
        for _ in 0..2 {
            let mut b = bytes.clone();
            let extra = rng.urange(1, 3);
            b.extend(rng.bytes(extra));
            if rng.bool() {
                *b.last_mut().unwrap() = 0;
            }
            cx.must_reject(&schema, "trailing", &b);
        }
        // --- structural malformations, one per mark (bounded)
        let mut order: Vec<usize> = (0..marks.len()).collect();
        rng.shuffle(&mut order);
        for &i in order.iter().take(if light { 6 } else { 16 }) {
            let mk = &marks[i];
            match &mk.kind {
                MarkKind::OptTag => {
                    let t = rng.range(2, 255) as u8;
                    cx.must_reject(&schema, "option_tag", &splice(&bytes, mk.off, 1, &[t]));
                }
                MarkKind::ResTag => {
                    let t = rng.range(2, 255) as u8;
                    cx.must_reject(&schema, "result_tag", &splice(&bytes, mk.off, 1, &[t]));
                }
                MarkKind::Enum(name) => {
                    let def = schema.machine.enum_defs.get(name).expect("enum def");
                    // a value outside the definition: neighbours of the variants, extremes, random
                    let mut tries = 0;
                    let x = loop {
                        let base = def.variants[rng.usize(def.variants.len())].1;
                        let c = match rng.below(5) {
                            0 => base.wrapping_add(1),
                            1 => base.wrapping_sub(1),
                            2 => *rng.pick(&[i64::MIN, i64::MAX, -1, 0]),
                            _ => vals::gen_int(&mut rng),
                        };
                        if !def.variants.iter().any(|(_, v)| *v == c) {
                            break Some(c);
                        }
                        tries += 1;
                        if tries > 50 {
                            break None;
                        }
                    };
                    if let Some(x) = x {
                        let mut e = vec![];
                        varint(zigzag(x), &mut e);
                        cx.must_reject(&schema, "enum_value", &splice(&bytes, mk.off, mk.len, &e));
                    }
                }
                MarkKind::Str { .. } => {
                    // invalid UTF-8 with a correct length prefix
                    let mut body: Vec<u8> = if rng.bool() { b"ab".to_vec() } else { vec![] };
                    body.extend_from_slice(BAD_UTF8[rng.usize(BAD_UTF8.len())]);
                    if rng.bool() {
                        body.extend_from_slice("é".as_bytes());
                    }
                    let mut e = vec![];
                    varint(body.len() as u64, &mut e);
                    e.extend_from_slice(&body);
                    cx.must_reject(&schema, "invalid_utf8", &splice(&bytes, mk.off, mk.len, &e));
                    // embedded NUL in otherwise valid text
                    let body: &[u8] = *rng.pick(&[&b"\0"[..], &b"a\0b"[..], &b"\0\0"[..], "é\0".as_bytes(), &b"abc\0"[..]]);
                    let mut e = vec![];
                    varint(body.len() as u64, &mut e);
                    e.extend_from_slice(body);
                    cx.must_reject(&schema, "embedded_nul", &splice(&bytes, mk.off, mk.len, &e));
                }
                MarkKind::IdLen => {
                    let l = loop {
                        let l = match rng.below(4) {
                            0 => *rng.pick(&[0u8, 1, 31, 33, 64, 127]),
                            _ => rng.range(0, 127) as u8,
                        };
                        if l != 32 {
                            break l;
                        }
                    };
                    let b = if rng.bool() {
                        // length byte only
                        splice(&bytes, mk.off, 1, &[l])
                    } else {
                        // length byte and a body of exactly that length
                        let mut e = vec![l];
                        e.extend(rng.bytes(l as usize));
                        splice(&bytes, mk.off, 33, &e)
                    };
                    cx.must_reject(&schema, "id_length", &b);
                }
            }
        }
        // --- arbitrary bytes: mutated valid encodings and pure noise
        for _ in 0..(if light { 4 } else { 12 }) {
            let mut b = bytes.clone();
            match rng.below(5) {
                0 if !b.is_empty() => {
                    let k = rng.usize(b.len());
                    b[k] ^= 1 << rng.usize(8);
                }
                1 if !b.is_empty() => {
                    let k = rng.usize(b.len());
                    b[k] = *rng.pick(&[0u8, 1, 2, 0x7f, 0x80, 0xff]);
                }
                2 if !b.is_empty() => {
                    b.remove(rng.usize(b.len()));
                }
                3 => {
                    let k = rng.usize(b.len() + 1);
                    b.insert(k, rng.u64() as u8);
                }
                _ => {
                    let n = rng.usize(48);
                    b = rng.bytes(n);
                    if rng.chance(1, 4) {
                        // long runs of continuation bits: over-long varints
                        b = vec![0xff; n];
                    }
                }
            }
            cx.arbitrary(&schema, &b);
        }
    }
    // --- API misuse that must be an error, not a panic
    let defs = Defs { structs: &schema.machine.struct_defs, enums: &schema.machine.enum_defs };
    if rng.chance(1, 4)
        && let Some(mut val) = vals::gen_struct(&mut rng, &schema.top, &defs, 0)
    {
        match rng.below(4) {
            0 => {
                val.fields.insert(ident("zz"), Value::Int(1));
            }
            1 => {
                let k = val.fields.keys().next().cloned();
                if let Some(k) = k {
                    val.fields.insert(k, vals::gen_any_value(&mut rng, 0));
                }
            }
            2 => val.name = ident("Nope"),
            _ => {
                let k = val.fields.keys().next().cloned();
                if let Some(k) = k {
                    val.fields.remove(&k);
                }
            }
        }
        cx.m.count("nonconforming_serialize", 1);
        if let Err(p) = catch(|| schema.machine.serialize_struct(&val).map(|b| schema.machine.deserialize_struct(schema.top.clone(), &b))) {
            cx.viol(&format!("ser-panic:{}", p.site()), &schema, json!({"value": format!("{val:?}"), "panic": p.what}));
        }
        if let Err(p) = catch(|| schema.machine.deserialize_struct(ident("Nope"), &[1, 2, 3])) {
            cx.viol(&format!("deser-panic:{}", p.site()), &schema, json!({"class": "unknown struct", "panic": p.what}));
        }
    }
}

fn main() {
    let args = Args::parse();
    let mut m = Monitor::new(
        "C26",
        "random acyclic schemas (1-5 structs of 0-7 fields over int/bool/string/bytes/id/unit/enum/struct/option/result, nested to depth 3, enums with arbitrary i64 values, option[never]/result[_, never]) x 1-3 conforming values each; round trip, then malformations built structurally from an independent encoding model that must first reproduce the real bytes: every truncated prefix, 1-3 trailing bytes, option/result tag 2..255, enum value outside the definition, invalid UTF-8 with a correct length prefix, embedded NUL, id length != 32 (with and without a matching body), plus mutated/random byte strings (no panic; accepted ones must round-trip). non-trivial = round-tripped value, distinct by (schema shape, encoded bytes)",
    )
    .min(args.n(2_000, 20_000))
    .require("model_agrees", "the independent encoding model must agree with serialize_struct")
    .require("neg_truncation", "truncation class")
    .require("neg_trailing", "trailing data class")
    .require("neg_option_tag", "option tag class")
    .require("neg_result_tag", "result tag class")
    .require("neg_enum_value", "enum value class")
    .require("neg_invalid_utf8", "invalid UTF-8 class")
    .require("neg_embedded_nul", "embedded NUL class")
    .require("neg_id_length", "id length class")
    .require("arbitrary_rejected", "arbitrary bytes");
    let light = args.engine == "miri";
    if let Some(r) = args.replay_case() {
        let case = r["case"]["case"].as_u64().expect("replay: case index");
        let seed = r["seed"].as_u64().unwrap_or(args.seed);
        run_case(&mut m, seed, case, false);
        finish_all(&args, vec![m]);
    }
    let n = args.n(100_000, 2_000_000);
    if light {
        // Miri interprets ~10^3-10^4 times slower: a small slice, lighter per-value work.
        let n = (n / 30).max(8);
        for i in 0..n {
            run_case(&mut m, args.seed, i, true);
        }
    } else {
        let threads = cores();
        let parts = par_shards(threads, |i, t| {
            let mut w = m.worker();
            let mut k = i as u64;
            while k < n {
                run_case(&mut w, args.seed, k, false);
                k += t as u64;
            }
            w
        });
        for w in parts {
            m.absorb(w);
        }
    }
    // model disagreements are reported once
    m.inconclusive.truncate(3);
    finish_all(&args, vec![m]);
}
