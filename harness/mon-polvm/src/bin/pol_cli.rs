//! C31: the policy compiler CLI honours validation.
//!
//! Builds the real `policy-compiler` binary from the tree under test, runs it on a corpus of
//! documents (valid / parse error / compile error / compiles but fails validation), each with and
//! without `--no-validate` and with `--stub-ffi`, and compares exit status and output file with
//! what the *library* (same parser, compiler and `validate` linked into this monitor) says:
//! success <=> parses && compiles && (no-validate || validation reports no failure).
use std::{
    fs,
    path::{Path, PathBuf},
    process::{Command, Stdio},
    time::{Duration, Instant},
};

use aranya_policy_compiler::{
    ActionAnalyzer, Compiler, FinishAnalyzer, FunctionAnalyzer, TraceAnalyzerBuilder, ValueAnalyzer,
    validate::validate,
};
use aranya_policy_lang::lang::parse_policy_document;
use aranya_policy_vm::{Identifier, LabelType, Module, ModuleData};
use polvm::{corpus, repo_root};
use vcore::*;

// ------------------------------------------------------------------------------ corpus

fn md(policy: &str) -> String {
    corpus::wrap_md(policy)
}

const CMD_FOO: &str = r#"
command Foo {
    fields {
        a int
    }
    seal { return todo() }
    open { return todo() }
    policy {
        finish {}
    }
    recall default() {
        finish {}
    }
}
"#;

struct DocSpec {
    name: String,
    text: String,
    /// what the author of the corpus intended (checked against the library, never trusted)
    intent: &'static str,
}

fn corpus_docs(repo: &Path) -> Vec<DocSpec> {
    let mut v: Vec<DocSpec> = vec![];
    let mut add = |name: &str, text: String, intent: &'static str| v.push(DocSpec { name: name.to_string(), text, intent });

    // ---- valid (mirrors the validator's own unit tests, plus a few richer documents)
    let valid_fns = [
        "function a() int {\n    return 0\n}",
        "function c() int {\n    if true {\n    }\n    return 6\n}",
        "function d() int {\n    let n = 0\n    if n > 0 {\n    }\n    else {\n        return 0\n    }\n    return 1\n}",
        "function f() int {\n    if true {\n        return 1\n    }\n    else {\n        return 0\n    }\n}",
        "function g(n int) int {\n    match n {\n        0 => { return 0 }\n        _ => { return n }\n    }\n}",
    ];
    for (i, f) in valid_fns.iter().enumerate() {
        add(&format!("valid-fn-{i}"), md(f), "valid");
    }
    let valid_actions = [
        "action a() {\n    publish Foo { a: 0 }\n}",
        "action b() {\n    if true {}\n    publish Foo { a: 0 }\n}",
        "action c() {\n    if true {}\n    else {\n        publish Foo { a: 0 }\n    }\n    publish Foo { a: 1 }\n}",
        "action d() {\n    if true {\n        publish Foo { a: 0 }\n    }\n    else {\n        publish Foo { a: 1 }\n    }\n}",
        "action e() {\n    let n = 0\n    match n {\n        0 => { publish Foo { a: 0 } }\n        _ => { publish Foo { a: 1 } }\n    }\n}",
    ];
    for (i, a) in valid_actions.iter().enumerate() {
        add(&format!("valid-action-{i}"), md(&format!("{CMD_FOO}\n{a}")), "valid");
    }
    add("valid-command-only", md(CMD_FOO), "valid");
    add(
        "valid-facts-effects",
        md(r#"
fact Counter[k int]=>{v int}
effect Bumped { k int, v int }
command Bump {
    fields { k int }
    seal { return todo() }
    open { return todo() }
    policy {
        let c = query Counter[k: this.k]=>{v: ?} or test_fail()
        let n = saturating_add(c.v, 1)
        finish {
            update Counter[k: this.k]=>{v: c.v} to {v: n}
            emit Bumped { k: this.k, v: n }
        }
    }
}
action bump(k int) {
    publish Bump { k: k }
}
"#),
        "valid",
    );
    add(
        "valid-check-recall",
        md(r#"
command C {
    fields { a int }
    seal { return todo() }
    open { return todo() }
    policy {
        check this.a > 0 else recall r()
        finish {}
    }
    recall r() {
        finish {}
    }
}
action go(a int) {
    publish C { a: a }
}
"#),
        "valid",
    );
    add("valid-structs-enums", md("enum E { A, B }\nstruct S { a int, e enum E }\nlet g = 3\nfunction f(s struct S) int {\n    return saturating_add(s.a, g)\n}\n"), "valid");
    add("valid-two-chunks", format!("---\npolicy-version: 2\n---\n\ntext\n\n```policy\nstruct S {{ a int }}\n```\n\nmore\n\n```policy\nfunction f(s struct S) int {{\n    return s.a\n}}\n```\n"), "valid");
    add("valid-empty-policy-block", md("// nothing\n"), "valid");
    // repo documents
    for rel in [
        "crates/aranya-policy-ifgen/tests/data/tictactoe.md",
        "crates/aranya-policy-ifgen/tests/data/structs.md",
        "crates/aranya-policy-ifgen/tests/data/constants.md",
        "crates/aranya-policy-lang/tests/data/tictactoe.md",
        "crates/aranya-policy-lang/test-policy.md",
        "crates/aranya-core-example/src/policy.md",
        "crates/aranya-model/src/tests/basic-policy.md",
        "crates/aranya-model/src/tests/ffi-policy.md",
        "crates/aranya-policy-runner/examples/policy.md",
    ] {
        if let Ok(t) = fs::read_to_string(repo.join(rel)) {
            add(&format!("repo:{rel}"), t, "repo");
        }
    }

    // ---- compiles but fails validation
    let invalid_fns = [
        "function b() int {\n    if false {\n        return 0\n    }\n}",
        "function e() int {\n    let n = 0\n    if n > 0 {\n    }\n    else {\n        return 0\n    }\n}",
        "function h(n int) int {\n    match n {\n        0 => { return 0 }\n        _ => { }\n    }\n}",
        "function i(n int) int {\n    if n > 0 {\n        if n > 1 {\n            return 2\n        }\n    }\n    else {\n        return 0\n    }\n}",
    ];
    for (i, f) in invalid_fns.iter().enumerate() {
        add(&format!("invalid-fn-missing-return-{i}"), md(f), "fails-validation");
    }
    let invalid_actions = [
        "action f() {\n    if true {\n        publish Foo { a: 0 }\n    }\n}",
        "action g() {\n    if true {\n    }\n    else if false {\n    }\n    else {\n        publish Foo { a: 0 }\n    }\n}",
        "action h() {\n}",
        "action i(n int) {\n    match n {\n        0 => { publish Foo { a: 0 } }\n        _ => { }\n    }\n}",
        "action j() {\n    let x = 1\n}",
    ];
    for (i, a) in invalid_actions.iter().enumerate() {
        add(&format!("invalid-action-no-publish-{i}"), md(&format!("{CMD_FOO}\n{a}")), "fails-validation");
    }
    let invalid_cmds = [
        // policy path that never reaches a finish block
        "command Nf {\n    fields { a int }\n    seal { return todo() }\n    open { return todo() }\n    policy {\n    }\n}",
        "command Nf2 {\n    fields { a int }\n    seal { return todo() }\n    open { return todo() }\n    policy {\n        if this.a > 0 {\n            finish {}\n        }\n    }\n}",
        "command Nf3 {\n    fields { a int }\n    seal { return todo() }\n    open { return todo() }\n    policy {\n        match this.a {\n            0 => { finish {} }\n            _ => { }\n        }\n    }\n}",
        "command Nf4 {\n    fields { a int }\n    seal { return todo() }\n    open { return todo() }\n    policy {\n        finish {}\n    }\n    recall r() {\n    }\n}",
    ];
    for (i, c) in invalid_cmds.iter().enumerate() {
        // whether the validator objects is for the library to say (intent "probe")
        add(&format!("command-path-without-finish-{i}"), md(c), "probe");
    }
    // a failing label before, between and after passing labels (labels are traced in name order)
    let bad_fn = |n: &str| format!("function {n}() int {{\n    if false {{\n        return 1\n    }}\n}}\n");
    let ok_fn = |n: &str| format!("function {n}() int {{\n    return 1\n}}\n");
    let bad_act = |n: &str| format!("action {n}() {{\n    if true {{\n        publish Foo {{ a: 0 }}\n    }}\n}}\n");
    let ok_act = |n: &str| format!("action {n}() {{\n    publish Foo {{ a: 0 }}\n}}\n");
    for (i, (bad, oks)) in [("a_bad", vec!["z_ok"]), ("z_bad", vec!["a_ok"]), ("m_bad", vec!["a_ok", "z_ok"]), ("A_bad", vec!["Z_ok", "a_ok", "z_ok"]), ("zz_bad", vec!["Z_ok", "a_ok", "z_ok"])].iter().enumerate() {
        let fns: String = oks.iter().map(|n| ok_fn(n)).collect();
        let acts: String = oks.iter().map(|n| ok_act(&format!("{n}_act"))).collect();
        add(&format!("invalid-order-fn-{i}"), md(&format!("{CMD_FOO}\n{}{fns}{acts}", bad_fn(bad))), "fails-validation");
        add(&format!("invalid-order-action-{i}"), md(&format!("{CMD_FOO}\n{}{fns}{acts}", bad_act(bad))), "fails-validation");
        add(&format!("invalid-order-both-{i}"), md(&format!("{CMD_FOO}\n{}{}{fns}", bad_fn(bad), bad_act(&format!("{bad}_act")))), "fails-validation");
    }
    add("invalid-mixed-valid-and-invalid", md(&format!("{CMD_FOO}\naction ok() {{\n    publish Foo {{ a: 0 }}\n}}\nfunction bad() int {{\n    if false {{\n        return 1\n    }}\n}}\n")), "fails-validation");

    // ---- compile errors
    let compile_errs = [
        "function f() int {\n    return true\n}",
        "function f() int {\n    return x\n}",
        "struct S { a int }\nstruct S { b int }",
        "function f() int {\n    return f2()\n}",
        "action a() {\n    publish 3\n}",
        "function f(a int) int {\n    return f(a)\n}\nfunction f(b int) int {\n    return 1\n}",
        "command C {\n    fields { a int }\n    seal { return todo() }\n    open { return todo() }\n    policy {\n        emit C { a: 1 }\n    }\n}",
        "function f() int {\n    finish {}\n    return 1\n}",
        "use nosuchmodule\n",
        "struct A { b struct B }\nstruct B { a struct A }\n",
        "function f() int {\n    let a = 1\n    let a = 2\n    return a\n}",
        "function f() int {\n    check 1 else return 0\n    return 1\n}",
    ];
    for (i, c) in compile_errs.iter().enumerate() {
        add(&format!("compile-error-{i}"), md(c), if c.starts_with("use ") { "probe" } else { "compile-error" });
    }
    let fails: Vec<PathBuf> = {
        let mut all = vec![];
        let dir = repo.join("crates/aranya-policy-compiler/tests/data");
        let mut stack = vec![dir];
        while let Some(d) = stack.pop() {
            if let Ok(rd) = fs::read_dir(&d) {
                for e in rd.flatten() {
                    let p = e.path();
                    if p.is_dir() {
                        stack.push(p);
                    } else if p.to_string_lossy().ends_with(".fail.policy") {
                        all.push(p);
                    }
                }
            }
        }
        all.sort();
        all
    };
    for p in fails.iter().step_by((fails.len() / 8).max(1)).take(8) {
        if let Ok(t) = fs::read_to_string(p) {
            add(&format!("repo-fail:{}", p.strip_prefix(repo).unwrap_or(p).display()), md(&t), "compile-error");
        }
    }

    // ---- parse errors
    let parse_errs = [
        "---\npolicy-version: 2\n---\n\n```policy\nfunction f( int {\n```\n".to_string(),
        "---\npolicy-version: 1\n---\n\n```policy\nstruct S { a int }\n```\n".to_string(),
        "```policy\nstruct S { a int }\n```\n".to_string(),
        "---\npolicy-version: 2\n---\n\nno code here\n".to_string(),
        md("struct S { a int "),
        md("function f() int {\n    return 99999999999999999999\n}"),
        md("let this = 3\n"),
        md("function f() int {\n    return \"\\q\"\n}"),
        String::new(),
        "---\npolicy-version: two\n---\n\n```policy\nstruct S { a int }\n```\n".to_string(),
    ];
    for (i, t) in parse_errs.iter().enumerate() {
        add(&format!("parse-error-{i}"), t.clone(), "parse-error");
    }
    v
}

// ------------------------------------------------------------------------------ library oracle

#[derive(Debug, Clone, PartialEq)]
enum Stage {
    ParseError,
    CompileError,
    /// compiled; `failed` is what `validate()` returned, `tracer_error` whether tracing itself failed
    Compiled { failed: bool, tracer_error: bool, trace_failures: usize },
}

/// Run `f` with stdout pointing at /dev/null (the library validator prints its findings).
fn quiet<T>(f: impl FnOnce() -> T) -> T {
    use std::io::Write as _;
    let _ = std::io::stdout().flush();
    unsafe {
        let saved = libc::dup(1);
        let null = libc::open(c"/dev/null".as_ptr(), libc::O_WRONLY);
        libc::dup2(null, 1);
        let r = f();
        let _ = std::io::stdout().flush();
        libc::dup2(saved, 1);
        libc::close(saved);
        libc::close(null);
        r
    }
}

/// The same analyzers `validate()` installs, through the public tracer API, only to learn
/// whether tracing itself errs (in which case `validate()`'s `false` does not mean "passed").
fn trace_status(module: &Module) -> (bool, usize) {
    let ModuleData::V0(m) = &module.data;
    let globals: Vec<Identifier> = m.globals.keys().cloned().collect();
    let mut tracer_error = false;
    let mut failures = 0;
    for l in m.labels.keys() {
        let mut b = TraceAnalyzerBuilder::new(m);
        match l.ltype {
            LabelType::Action => b = b.add_analyzer(ActionAnalyzer::new()),
            LabelType::CommandPolicy | LabelType::CommandRecall => b = b.add_analyzer(FinishAnalyzer::new()),
            LabelType::Function => b = b.add_analyzer(FunctionAnalyzer::new()),
            _ => {}
        }
        let t = b.add_analyzer(ValueAnalyzer::new(globals.clone())).build();
        match t.trace(l) {
            Ok(f) => failures += f.len(),
            Err(_) => tracer_error = true,
        }
    }
    (tracer_error, failures)
}

fn library_stage(text: &str, stub_ffi: bool) -> (Stage, Option<Module>) {
    let Ok(ast) = parse_policy_document(text) else { return (Stage::ParseError, None) };
    // The CLI does not call `.debug(..)`: it gets `cfg!(debug_assertions)` of its own build,
    // and this monitor always builds it in the dev profile, i.e. debug = true.
    let Ok(module) = Compiler::new(&ast).stub_ffi(stub_ffi).debug(true).compile() else {
        return (Stage::CompileError, None);
    };
    let failed = quiet(|| validate(&module));
    let (tracer_error, trace_failures) = trace_status(&module);
    (Stage::Compiled { failed, tracer_error, trace_failures }, Some(module))
}

/// Child mode: print the library's verdict for one file as JSON (a hang or crash of the library
/// validator must not take the monitor down).
fn oracle_child(path: &str, stub: bool) -> ! {
    let text = fs::read_to_string(path).expect("read doc");
    let r = catch(|| library_stage(&text, stub));
    let v = match r {
        Err(p) => json!({"stage": "library-panic", "panic": p.what, "site": p.site()}),
        Ok((Stage::ParseError, _)) => json!({"stage": "parse-error"}),
        Ok((Stage::CompileError, _)) => json!({"stage": "compile-error"}),
        Ok((Stage::Compiled { failed, tracer_error, trace_failures }, m)) => {
            let mut cbor = vec![];
            if let Some(m) = &m {
                let _ = ciborium::into_writer(m, &mut cbor);
            }
            json!({"stage": "compiled", "validate_returned": failed, "tracer_error": tracer_error, "trace_failures": trace_failures, "module_hash": hash_of(&cbor)})
        }
    };
    println!("ORACLE {v}");
    std::process::exit(0)
}

fn run_with_timeout(mut cmd: Command, secs: u64) -> Option<(Option<i32>, String)> {
    cmd.stdin(Stdio::null()).stdout(Stdio::piped()).stderr(Stdio::piped());
    let mut child = cmd.spawn().ok()?;
    let t0 = Instant::now();
    loop {
        match child.try_wait() {
            Ok(Some(_)) => break,
            Ok(None) if t0.elapsed() > Duration::from_secs(secs) => {
                let _ = child.kill();
                let _ = child.wait();
                return None;
            }
            Ok(None) => std::thread::sleep(Duration::from_millis(5)),
            Err(_) => return None,
        }
    }
    let out = child.wait_with_output().ok()?;
    let mut s = String::from_utf8_lossy(&out.stdout).to_string();
    s.push_str(&String::from_utf8_lossy(&out.stderr));
    Some((out.status.code(), s))
}

// ------------------------------------------------------------------------------ main

fn build_cli(repo: &Path, target: &Path) -> Result<PathBuf, String> {
    let mut c = Command::new("cargo");
    c.current_dir(repo)
        .args(["build", "--offline", "-p", "aranya-policy-compiler", "--bin", "policy-compiler", "--manifest-path"])
        .arg(repo.join("Cargo.toml"))
        .env("CARGO_TARGET_DIR", target)
        .env("CARGO_NET_OFFLINE", "true")
        .env_remove("RUSTFLAGS")
        .env_remove("CARGO_ENCODED_RUSTFLAGS")
        .env_remove("RUSTUP_TOOLCHAIN");
    let out = c.output().map_err(|e| format!("cargo: {e}"))?;
    if !out.status.success() {
        let e = String::from_utf8_lossy(&out.stderr);
        return Err(format!("cargo build failed: {}", &e[e.len().saturating_sub(1500)..]));
    }
    let exe = target.join("debug/policy-compiler");
    if exe.is_file() { Ok(exe) } else { Err(format!("{} missing after build", exe.display())) }
}

fn main() {
    let args = Args::parse();
    if let Some(p) = args.get("oracle") {
        oracle_child(p, args.get("stub") == Some("1"));
    }
    let mut m = Monitor::new(
        "C31",
        "documents: the validator's own unit-test cases (5 valid + 4 invalid functions, 5 valid + 5 invalid actions), commands whose policy/recall can exit without finish, richer valid documents, 9 repo policy documents, 12 crafted + 8 repo compile-error documents, 10 parse-error documents; each run through the freshly built CLI with {}, {--no-validate}, {--stub-ffi}, {--stub-ffi --no-validate}; oracle from the linked library: success <=> parse ok && compile ok && (no-validate || validate() reports no failure); observed: exit status, output file present/decodable/equal to the library's module (no file with --stub-ffi). non-trivial = distinct (document, flags) runs whose library classification is determinate",
    )
    .min(100)
    .require("docs_valid", "documents that pass validation")
    .require("docs_fail_validation", "documents that compile but fail validation")
    .require("docs_compile_error", "documents with compile errors")
    .require("docs_parse_error", "documents with parse errors")
    .require("runs_expected_success", "runs expected to succeed")
    .require("runs_expected_validation_failure", "runs expected to fail because of validation");

    let repo = repo_root(&args);
    let target = match args.get("cli_target") {
        Some(t) => PathBuf::from(t),
        None if repo == Path::new("/repo") => args.root.join("target/repo-cli"),
        None => PathBuf::from(format!("{}-target/repo-cli", repo.display())),
    };
    let t0 = Instant::now();
    let cli = match build_cli(&repo, &target) {
        Ok(p) => p,
        Err(e) => {
            m.inconclusive(&format!("could not build the CLI from {}: {e}", repo.display()));
            finish_all(&args, vec![m]);
        }
    };
    m.max("max_cli_build_s", t0.elapsed().as_secs());

    let scratch = Scratch::new("polcli");
    let me = std::env::current_exe().expect("current_exe");
    let docs = corpus_docs(&repo);
    let only = args.replay_case().map(|r| (r["case"]["doc"].as_str().unwrap_or("").to_string(), r["case"]["flags"].as_str().unwrap_or("").to_string()));

    for (di, d) in docs.iter().enumerate() {
        if let Some((od, _)) = &only
            && *od != d.name
        {
            continue;
        }
        let src = scratch.path().join(format!("doc{di}.md"));
        fs::write(&src, &d.text).expect("write doc");
        for stub in [false, true] {
            // library verdict, in a child so a hang or crash of the validator cannot stall us
            let mut oc = Command::new(&me);
            oc.args(["--set", &format!("oracle={}", src.display()), "--set", &format!("stub={}", stub as u8)]);
            let oracle: Value = match run_with_timeout(oc, 30) {
                None => {
                    m.count("library_oracle_timeouts", 1);
                    json!({"stage": "library-timeout"})
                }
                Some((_, out)) => out
                    .lines()
                    .find_map(|l| l.strip_prefix("ORACLE "))
                    .and_then(|j| serde_json::from_str(j).ok())
                    .unwrap_or_else(|| json!({"stage": "library-crash", "output": out.chars().take(400).collect::<String>()})),
            };
            let stage = oracle["stage"].as_str().unwrap_or("?").to_string();
            if !stub {
                match stage.as_str() {
                    "parse-error" => m.count("docs_parse_error", 1),
                    "compile-error" => m.count("docs_compile_error", 1),
                    "compiled" if oracle["tracer_error"] == json!(true) => m.count("docs_tracer_error", 1),
                    "compiled" if oracle["validate_returned"] == json!(true) => m.count("docs_fail_validation", 1),
                    "compiled" => m.count("docs_valid", 1),
                    _ => m.count("docs_library_indeterminate", 1),
                }
                // the corpus author's intent is only a sanity check of the corpus itself
                let agrees = match d.intent {
                    "valid" => stage == "compiled" && oracle["validate_returned"] == json!(false),
                    "fails-validation" => stage == "compiled" && oracle["validate_returned"] == json!(true),
                    "compile-error" => stage == "compile-error",
                    "parse-error" => stage == "parse-error",
                    _ => true,
                };
                if !agrees {
                    m.count("corpus_intent_disagrees_with_library", 1);
                    m.seen("corpus_intent_disagreements", &format!("{} intended {} library {}", d.name, d.intent, oracle));
                }
            }
            // validate()'s bool and the tracer API must tell the same story, else the oracle is unclear
            // The verdict on validation comes from the tracer API (does any label's trace report a
            // failure), not from validate()'s own aggregation: validate() returning something else
            // is a violation of the anchored mechanism "validator returns true when a trace fails".
            let trace_fails = oracle["trace_failures"].as_u64().unwrap_or(0) > 0;
            let determinate = match stage.as_str() {
                "parse-error" | "compile-error" => true,
                "compiled" => oracle["tracer_error"] == json!(false),
                _ => false,
            };
            if stage == "compiled" && determinate && !stub {
                m.eval();
                if (oracle["validate_returned"] == json!(true)) != trace_fails {
                    m.violation(
                        "validate-return-disagrees-with-trace-failures",
                        json!({"doc": d.name, "document": d.text, "library": oracle,
                            "what": "validate() must return true exactly when some label's trace reports a failure"}),
                    );
                } else {
                    m.count("validate_agrees_with_tracer", 1);
                }
            }
            for no_validate in [false, true] {
                let flags = format!("{}{}", if stub { "--stub-ffi " } else { "" }, if no_validate { "--no-validate" } else { "" }).trim().to_string();
                if let Some((_, of)) = &only
                    && *of != flags
                {
                    continue;
                }
                m.eval();
                let outp = scratch.path().join(format!("doc{di}-{}-{}.pmod", stub as u8, no_validate as u8));
                let _ = fs::remove_file(&outp);
                let mut c = Command::new(&cli);
                c.arg(&src).arg("--out").arg(&outp);
                if stub {
                    c.arg("--stub-ffi");
                }
                if no_validate {
                    c.arg("--no-validate");
                }
                let Some((code, output)) = run_with_timeout(c, 60) else {
                    m.count("cli_timeouts", 1);
                    continue;
                };
                if !determinate {
                    m.count("runs_library_indeterminate", 1);
                    continue;
                }
                m.nontrivial(hash_of(&(d.name.as_str(), flags.as_str())));
                let compiled = stage == "compiled";
                let passes_validation = compiled && !trace_fails;
                let expect_success = compiled && (no_validate || passes_validation);
                let success = code == Some(0);
                if code == Some(101) {
                    m.count("aux_cli_panics", 1);
                }
                let file = fs::read(&outp).ok();
                let decoded = file.as_ref().map(|b| ciborium::from_reader::<Module, _>(&b[..]).is_ok());
                let detail = |what: &str| {
                    json!({
                        "doc": d.name, "flags": flags, "what": what, "document": d.text,
                        "library": oracle, "expected_success": expect_success,
                        "cli_exit": code, "cli_output": output.chars().take(1200).collect::<String>(),
                        "output_file_present": file.is_some(), "output_file_decodes": decoded,
                    })
                };
                if expect_success {
                    m.count("runs_expected_success", 1);
                } else if compiled {
                    m.count("runs_expected_validation_failure", 1);
                } else {
                    m.count("runs_expected_front_end_failure", 1);
                }
                if expect_success && !success {
                    let sig = if no_validate { "cli-rejects-policy-with-no-validate" } else { "cli-rejects-valid-policy" };
                    m.violation(sig, detail("library: parses, compiles and passes validation; CLI exits with failure"));
                    continue;
                }
                if !expect_success && success {
                    let sig = if compiled { "cli-accepts-policy-failing-validation" } else { "cli-accepts-uncompilable-policy" };
                    m.violation(sig, detail("library: must be rejected; CLI exits with success"));
                    continue;
                }
                // exit status agrees; now the output file
                if success && !stub {
                    match (&file, decoded) {
                        (None, _) => m.violation("cli-success-without-module", detail("exit 0 but no output file")),
                        (Some(_), Some(false)) => m.violation("cli-success-undecodable-module", detail("exit 0 but the output file does not decode as a Module")),
                        (Some(b), _) => {
                            if oracle["module_hash"].as_u64() != Some(hash_of(b)) {
                                m.violation("cli-module-differs-from-library", detail("the written module differs from the library's module for the same document"));
                            } else {
                                m.count("modules_equal_to_library", 1);
                            }
                        }
                    }
                }
                if success && stub && file.is_some() {
                    m.count("stub_ffi_wrote_file", 1);
                }
                if !success && file.is_some() {
                    m.violation("cli-failure-leaves-module", detail("exit != 0 but an output file was written"));
                }
                if di % 17 == 3 && !stub && !no_validate {
                    m.sample(|| json!({"doc": d.name, "flags": flags, "library": oracle, "cli_exit": code, "expected_success": expect_success}));
                }
            }
        }
    }
    finish_all(&args, vec![m]);
}
