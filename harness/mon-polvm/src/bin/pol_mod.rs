//! C28: compiled modules are deterministic and survive serialization.
//!
//! For every accepted policy (repo corpus + accepted variants of the C27 input generator):
//! parse+compile twice => `Module ==`; CBOR (ciborium, as the CLI writes it) and rkyv (validated)
//! round trips => `Module ==` and `Machine::from_module ==`; every action / command policy /
//! recall / seal / open / function entry point is executed with generated arguments on the
//! original and on the decoded machine against a deterministic recording `MachineIO`, and the
//! complete observation (exit or error, published commands, effects, fact operations, foreign
//! calls, final stack) must be identical.
use std::collections::BTreeMap;

use aranya_crypto::{BaseId, DeviceId, policy::CmdId};
use aranya_policy_ast::{Policy, Version};
use aranya_policy_compiler::Compiler;
use aranya_policy_lang::lang::{parse_policy_document, parse_policy_str};
use aranya_policy_vm::{
    ActionContext, CommandContext, ExitReason, FactKey, FactValue, HashableValue, Label, LabelType,
    Machine, MachineStatus, Module, ModuleData, OpenContext, PolicyContext, SealContext, Stack as _,
    Struct, TypeKind, Value, ffi::ModuleSchema,
};
use polvm::{
    corpus::{self, Doc},
    ffi_schemas,
    io::{FfiSig, RecIO, ffi_sigs},
    repo_root,
    vals::{self, Defs, ident},
};
use vcore::*;

const STEP_BUDGET: u64 = 4096;

fn parse(text: &str, md: bool) -> Option<Policy> {
    if md { parse_policy_document(text).ok() } else { parse_policy_str(text, Version::V2).ok() }
}

fn compile(p: &Policy, schemas: &[ModuleSchema<'static>]) -> Option<Module> {
    Compiler::new(p).ffi_modules(schemas).debug(true).compile().ok()
}

/// Where two modules first differ (for the violation detail).
fn module_diff(a: &Module, b: &Module) -> String {
    let (ModuleData::V0(a), ModuleData::V0(b)) = (&a.data, &b.data);
    if a.progmem != b.progmem {
        let i = a.progmem.iter().zip(b.progmem.iter()).position(|(x, y)| x != y);
        return format!(
            "progmem (len {} vs {}), first difference at {:?}: {:?} vs {:?}",
            a.progmem.len(),
            b.progmem.len(),
            i,
            i.map(|i| &a.progmem[i]),
            i.map(|i| &b.progmem[i])
        );
    }
    if a.labels != b.labels {
        return format!("labels: {:?} vs {:?}", a.labels, b.labels);
    }
    if a.action_defs != b.action_defs {
        return format!("action_defs: {:?} vs {:?}", a.action_defs, b.action_defs);
    }
    if a.command_defs != b.command_defs {
        return format!("command_defs: {:?} vs {:?}", a.command_defs, b.command_defs);
    }
    if a.fact_defs != b.fact_defs {
        return format!("fact_defs: {:?} vs {:?}", a.fact_defs, b.fact_defs);
    }
    if a.struct_defs != b.struct_defs {
        return format!("struct_defs: {:?} vs {:?}", a.struct_defs, b.struct_defs);
    }
    if a.enum_defs != b.enum_defs {
        return format!("enum_defs: {:?} vs {:?}", a.enum_defs, b.enum_defs);
    }
    if a.codemap != b.codemap {
        return "codemap".into();
    }
    if a.globals != b.globals {
        return format!("globals: {:?} vs {:?}", a.globals, b.globals);
    }
    "no field differs (Eq is not structural?)".into()
}

fn hashable(v: Value) -> Option<HashableValue> {
    HashableValue::try_from(v).ok()
}

/// A few facts per definition so queries, updates and deletes have something to find.
fn seed_facts(rng: &mut Rng, machine: &Machine, io: &mut RecIO) {
    let defs = Defs { structs: &machine.struct_defs, enums: &machine.enum_defs };
    for fd in machine.fact_defs.iter() {
        for _ in 0..rng.usize(4) {
            let mut keys = vec![];
            let mut ok = true;
            for k in &fd.key {
                // small key space so generated arguments hit existing facts now and then
                let v = match &k.ty {
                    TypeKind::Int => Some(Value::Int(rng.range(0, 3) as i64)),
                    TypeKind::Bool => Some(Value::Bool(rng.bool())),
                    t => vals::gen_value(rng, t, &defs, 0),
                };
                match v.and_then(hashable) {
                    Some(h) => keys.push(FactKey::new(k.name.clone(), h)),
                    None => ok = false,
                }
            }
            let mut vs = vec![];
            for v in &fd.value {
                match vals::gen_value(rng, &v.ty, &defs, 0) {
                    Some(x) => vs.push(FactValue::new(v.name.clone(), x)),
                    None => ok = false,
                }
            }
            if ok {
                io.facts.insert((fd.name.clone(), keys), vs);
            }
        }
    }
}

#[derive(Clone, Debug)]
enum Entry {
    Action(aranya_policy_vm::Identifier, Vec<Value>),
    Command(Label, Struct),
    Seal(Label, Struct),
    Open(Label, Struct),
    Function(Label, Vec<Value>),
}

fn small_int_bias(rng: &mut Rng, ty: &TypeKind, defs: &Defs<'_>) -> Option<Value> {
    match ty {
        TypeKind::Int if rng.chance(2, 3) => Some(Value::Int(rng.range(0, 4) as i64)),
        t => vals::gen_value(rng, t, defs, 0),
    }
}

/// Everything an execution shows to the outside.
fn observe(machine: &Machine, entry: &Entry, sigs: &[Vec<FfiSig>], seed: u64) -> (String, &'static str) {
    let mut io = RecIO::new(sigs.to_vec(), machine.struct_defs.clone(), machine.enum_defs.clone());
    seed_facts(&mut Rng::new(seed).fork(1), machine, &mut io);
    let pol = |name: &aranya_policy_vm::Identifier| PolicyContext {
        name: name.clone(),
        id: CmdId::default(),
        author: DeviceId::default(),
        version: BaseId::default(),
    };
    let ctx = match entry {
        Entry::Action(name, _) => CommandContext::Action(ActionContext { name: name.clone(), head_id: CmdId::default() }),
        Entry::Command(l, _) if l.ltype == LabelType::CommandRecall => CommandContext::Recall(pol(&l.name)),
        Entry::Command(l, _) => CommandContext::Policy(pol(&l.name)),
        Entry::Seal(l, _) => CommandContext::Seal(SealContext { name: l.name.clone(), head_id: CmdId::default() }),
        Entry::Open(l, _) => CommandContext::Open(OpenContext { name: l.name.clone() }),
        Entry::Function(l, _) => CommandContext::Policy(pol(&l.name)),
    };
    let mut published: Vec<String> = vec![];
    let envelope = Struct { name: ident("Envelope"), fields: BTreeMap::new() };
    let (end, class, stack) = {
        let mut rs = machine.create_run_state(&mut io, ctx);
        let setup = match entry {
            Entry::Action(name, args) => rs.setup_action(name.clone(), args.clone()),
            Entry::Command(l, this) => rs.setup_command(l.clone(), this.clone()).and_then(|()| rs.stack.push_value(Value::Struct(envelope.clone())).map_err(Into::into)),
            // as RunState::call_seal / call_open: `this`, the payload, (and the envelope)
            Entry::Seal(l, this) => rs.set_pc_by_label(l).and_then(|()| {
                rs.stack.push_value(Value::Struct(this.clone()))?;
                rs.stack.push_value(Value::Bytes(vec![1, 2, 3]))?;
                Ok(())
            }),
            Entry::Open(l, this) => rs.set_pc_by_label(l).and_then(|()| {
                rs.stack.push_value(Value::Struct(this.clone()))?;
                rs.stack.push_value(Value::Bytes(vec![1, 2, 3]))?;
                rs.stack.push_value(Value::Struct(envelope.clone()))?;
                Ok(())
            }),
            Entry::Function(l, args) => rs.set_pc_by_label(l).and_then(|()| {
                for a in args {
                    rs.stack.push_value(a.clone())?;
                }
                Ok(())
            }),
        };
        let mut steps = 0u64;
        let (end, class): (String, &'static str) = match setup {
            Err(e) => (format!("setup error: {e:?}"), "setup_error"),
            Ok(()) => loop {
                if steps >= STEP_BUDGET {
                    break ("step budget".to_string(), "budget");
                }
                steps += 1;
                match rs.step() {
                    Ok(MachineStatus::Executing) => {}
                    Ok(MachineStatus::Exited(ExitReason::Yield)) => {
                        // a published command is on top of the stack
                        match rs.stack.pop_value() {
                            Ok(v) => published.push(format!("{v:?}")),
                            Err(e) => break (format!("yield without value: {e:?}"), "error"),
                        }
                    }
                    Ok(MachineStatus::Exited(r)) => {
                        let class = match r {
                            ExitReason::Normal => "exit_normal",
                            ExitReason::Check => "exit_check",
                            ExitReason::Panic => "exit_panic",
                            ExitReason::Yield => "exit_yield",
                        };
                        break (format!("exit {r} after {steps} steps at pc {}", rs.pc()), class);
                    }
                    Err(e) => break (format!("error {e:?} after {steps} steps at pc {}", rs.pc()), "error"),
                }
            },
        };
        let stack = format!("{:?}", rs.stack.as_slice());
        (end, class, stack)
    };
    let log = io.log.borrow();
    (
        format!("end: {end}\npublished: {published:?}\nstack: {stack}\nio: {:#?}\nfacts: {:?}", *log, io.facts),
        class,
    )
}

fn entries(rng: &mut Rng, machine: &Machine, ast: &Policy) -> Vec<Entry> {
    let defs = Defs { structs: &machine.struct_defs, enums: &machine.enum_defs };
    let mut out = vec![];
    for l in machine.labels.keys() {
        // two argument vectors per entry point
        for _ in 0..2 {
            match l.ltype {
                LabelType::Action => {
                    let Some(d) = machine.action_defs.get(&l.name) else { continue };
                    let args: Option<Vec<Value>> = d.params.iter().map(|p| small_int_bias(rng, &p.ty, &defs)).collect();
                    if let Some(args) = args {
                        out.push(Entry::Action(l.name.clone(), args));
                    }
                }
                LabelType::CommandPolicy | LabelType::CommandRecall | LabelType::CommandSeal | LabelType::CommandOpen => {
                    // recall labels are named after the command
                    let Some(d) = machine.command_defs.iter().find(|c| l.name.as_str() == c.name.as_str() || l.name.as_str().starts_with(c.name.as_str())) else { continue };
                    let mut fields = BTreeMap::new();
                    let mut ok = true;
                    for f in &d.fields {
                        match small_int_bias(rng, &f.ty, &defs) {
                            Some(v) => {
                                fields.insert(f.name.clone(), v);
                            }
                            None => ok = false,
                        }
                    }
                    if !ok {
                        continue;
                    }
                    let this = Struct { name: d.name.clone(), fields };
                    out.push(match l.ltype {
                        LabelType::CommandSeal => Entry::Seal(l.clone(), this),
                        LabelType::CommandOpen => Entry::Open(l.clone(), this),
                        _ => Entry::Command(l.clone(), this),
                    });
                }
                LabelType::Function => {
                    let params: Option<Vec<TypeKind>> = ast
                        .functions
                        .iter()
                        .find(|f| f.identifier.inner == l.name)
                        .map(|f| f.arguments.iter().map(|p| p.ty.inner.clone().into()).collect())
                        .or_else(|| {
                            ast.finish_functions
                                .iter()
                                .find(|f| f.identifier.inner == l.name)
                                .map(|f| f.arguments.iter().map(|p| p.ty.inner.clone().into()).collect())
                        });
                    let Some(params) = params else { continue };
                    let args: Option<Vec<Value>> = params.iter().map(|t| small_int_bias(rng, t, &defs)).collect();
                    if let Some(args) = args {
                        out.push(Entry::Function(l.clone(), args));
                    }
                }
                LabelType::Temporary => {}
            }
        }
    }
    out
}

fn check_policy(m: &mut Monitor, schemas: &[ModuleSchema<'static>], sigs: &[Vec<FfiSig>], text: &str, md: bool, origin: &str, id: u64) {
    m.eval();
    let fail = |m: &mut Monitor, sig: &str, extra: serde_json::Value| {
        m.violation(sig, json!({"policy": text, "markdown": md, "origin": origin, "id": id, "extra": extra}));
    };
    // --- determinism: two independent parse+compile runs, and one more compile of the same AST
    let r = catch(|| {
        let a1 = parse(text, md)?;
        let m1 = compile(&a1, schemas)?;
        let a2 = parse(text, md)?;
        let m2 = compile(&a2, schemas)?;
        let m3 = compile(&a1, schemas)?;
        Some((a1, m1, m2, m3))
    });
    let (ast, m1, m2, m3) = match r {
        Err(p) => {
            // a front-end panic belongs to C27; here it only means the policy cannot be used
            m.count("front_end_panics_skipped", 1);
            let _ = p;
            return;
        }
        Ok(None) => {
            m.count("not_accepted", 1);
            return;
        }
        Ok(Some(x)) => x,
    };
    m.count("accepted", 1);
    m.count(&format!("accepted_{}", origin.split(':').next().unwrap_or("?")), 1);
    if m1 != m2 {
        fail(m, "module-nondeterministic", json!({"what": "two parse+compile runs of the same text", "diff": module_diff(&m1, &m2)}));
        return;
    }
    if m1 != m3 {
        fail(m, "module-nondeterministic", json!({"what": "two compile runs of the same AST", "diff": module_diff(&m1, &m3)}));
        return;
    }
    // --- CBOR exactly as the CLI writes it
    let mut cbor = vec![];
    if let Err(e) = ciborium::into_writer(&m1, &mut cbor) {
        fail(m, "module-cbor-encode-failed", json!(e.to_string()));
        return;
    }
    let mut cbor2 = vec![];
    let _ = ciborium::into_writer(&m2, &mut cbor2);
    if cbor != cbor2 {
        fail(m, "module-cbor-bytes-nondeterministic", json!({"len": [cbor.len(), cbor2.len()]}));
    }
    let via_cbor: Module = match catch(|| ciborium::from_reader::<Module, _>(&cbor[..])) {
        Ok(Ok(x)) => x,
        Ok(Err(e)) => {
            fail(m, "module-cbor-decode-failed", json!(e.to_string()));
            return;
        }
        Err(p) => {
            fail(m, &format!("module-cbor-decode-panic:{}", p.site()), json!(p.what));
            return;
        }
    };
    if via_cbor != m1 {
        fail(m, "module-cbor-roundtrip-differs", json!({"diff": module_diff(&m1, &via_cbor)}));
        return;
    }
    m.count("cbor_roundtrips", 1);
    m.max("max_cbor_len", cbor.len() as u64);
    // --- rkyv with validation
    let via_rkyv: Module = match catch(|| {
        let bytes = rkyv::to_bytes::<rkyv::rancor::Error>(&m1)?;
        rkyv::from_bytes::<Module, rkyv::rancor::Error>(&bytes)
    }) {
        Ok(Ok(x)) => x,
        Ok(Err(e)) => {
            fail(m, "module-rkyv-roundtrip-failed", json!(e.to_string()));
            return;
        }
        Err(p) => {
            fail(m, &format!("module-rkyv-panic:{}", p.site()), json!(p.what));
            return;
        }
    };
    if via_rkyv != m1 {
        fail(m, "module-rkyv-roundtrip-differs", json!({"diff": module_diff(&m1, &via_rkyv)}));
        return;
    }
    m.count("rkyv_roundtrips", 1);
    // --- postcard: only counted; an internally tagged enum cannot be decoded by a
    // non-self-describing format, which is a property of the format, not a defect
    match catch(|| postcard::to_allocvec(&m1)) {
        Ok(Ok(b)) => match catch(|| postcard::from_bytes::<Module>(&b)) {
            Ok(Ok(x)) => {
                m.count("postcard_roundtrips", 1);
                if x != m1 {
                    fail(m, "module-postcard-roundtrip-differs", json!({"diff": module_diff(&m1, &x)}));
                }
            }
            Ok(Err(_)) => m.count("postcard_cannot_decode_tagged_enum", 1),
            Err(p) => fail(m, &format!("module-postcard-panic:{}", p.site()), json!(p.what)),
        },
        Ok(Err(_)) => m.count("postcard_cannot_encode", 1),
        Err(p) => fail(m, &format!("module-postcard-panic:{}", p.site()), json!(p.what)),
    }
    // --- machines
    let (ma, mb, mc) = match (Machine::from_module(m1.clone()), Machine::from_module(via_cbor), Machine::from_module(via_rkyv)) {
        (Ok(a), Ok(b), Ok(c)) => (a, b, c),
        other => {
            fail(m, "machine-from-module-failed", json!(format!("{:?}", (other.0.is_ok(), other.1.is_ok(), other.2.is_ok()))));
            return;
        }
    };
    if ma != mb || ma != mc {
        fail(m, "machine-differs-after-roundtrip", json!({"cbor_equal": ma == mb, "rkyv_equal": ma == mc}));
        return;
    }
    // --- execution
    let mut rng = Rng::new(hash_of(&text)).fork(28);
    let es = entries(&mut rng, &ma, &ast);
    let mut executed = 0;
    for (k, e) in es.iter().enumerate() {
        let seed = mix2(hash_of(&text), k as u64);
        let other = if k % 2 == 0 { &mb } else { &mc };
        let r = catch(|| (observe(&ma, e, sigs, seed), observe(other, e, sigs, seed)));
        match r {
            Err(p) => {
                // VM panics belong to C25
                m.count("vm_panics_skipped", 1);
                let _ = p;
            }
            Ok(((oa, class), (ob, _))) => {
                executed += 1;
                m.count(&format!("exec_{class}"), 1);
                if class == "error" || class == "setup_error" {
                    let kind = oa.split("err_type: ").nth(1).unwrap_or("?").split(['(', ' ', '{', ',']).next().unwrap_or("?").to_string();
                    let ek = match e {
                        Entry::Action(..) => "action",
                        Entry::Command(l, _) if l.ltype == LabelType::CommandRecall => "recall",
                        Entry::Command(..) => "policy",
                        Entry::Seal(..) => "seal",
                        Entry::Open(..) => "open",
                        Entry::Function(..) => "function",
                    };
                    m.count(&format!("exec_error {ek} {kind}"), 1);
                }
                m.count(
                    match e {
                        Entry::Action(..) => "exec_actions",
                        Entry::Command(..) => "exec_commands",
                        Entry::Seal(..) => "exec_seals",
                        Entry::Open(..) => "exec_opens",
                        Entry::Function(..) => "exec_functions",
                    },
                    1,
                );
                if oa.contains("insert ") || oa.contains("delete ") {
                    m.count("exec_with_fact_ops", 1);
                }
                if oa.contains("effect ") {
                    m.count("exec_with_effects", 1);
                }
                if !oa.contains("published: []") {
                    m.count("exec_with_publish", 1);
                }
                if oa != ob {
                    fail(
                        m,
                        "execution-differs-after-roundtrip",
                        json!({"entry": format!("{e:?}"), "via": if k % 2 == 0 { "cbor" } else { "rkyv" }, "original": oa, "decoded": ob}),
                    );
                    return;
                }
                if id % 97 == 5 && k == 0 {
                    m.sample(|| json!({"origin": origin, "entry": format!("{e:?}"), "observation": oa.chars().take(600).collect::<String>()}));
                }
            }
        }
    }
    if executed > 0 {
        m.nontrivial(hash_of(&text));
    } else {
        m.count("accepted_without_entry_points", 1);
        // definitions-only policies still count for the module-level checks
        m.nontrivial(hash_of(&text));
    }
}

fn main() {
    let args = Args::parse();
    let mut m = Monitor::new(
        "C28",
        "policies: every document of the repo corpus (*.policy, markdown policy documents, policy snippets of the policy crates' tests) plus the accepted share of the C27 generator (mutated corpus documents, generated small programs); each: 2x parse+compile and a re-compile of the same AST compared with ==, CBOR (ciborium) and rkyv (validated) round trips compared with == on Module and Machine, and two generated argument vectors per action/command policy/recall/seal/open/function entry executed on the original and the decoded machine against a deterministic recording MachineIO with seeded facts (observation = exit/error, published commands, effects, fact ops, foreign calls, final stack, fact store). non-trivial = distinct accepted policy text",
    )
    .min(100)
    .require("cbor_roundtrips", "CBOR round trips must happen")
    .require("rkyv_roundtrips", "rkyv round trips must happen")
    .require("exec_actions", "actions must be executed")
    .require("exec_commands", "command policies must be executed")
    .require("exec_functions", "functions must be executed")
    .require("exec_exit_normal", "some executions must end normally")
    .require("exec_with_fact_ops", "some executions must touch facts")
    .require("exec_with_publish", "some executions must publish");
    let schemas = ffi_schemas();
    let sigs = ffi_sigs(&schemas);

    if let Some(r) = args.replay_case() {
        let c = &r["case"];
        let text = c["policy"].as_str().expect("replay: policy text");
        check_policy(&mut m, &schemas, &sigs, text, c["markdown"].as_bool().unwrap_or(false), "replay", 0);
        finish_all(&args, vec![m]);
    }

    let repo = repo_root(&args);
    let docs: Vec<Doc> = corpus::load_corpus(&repo);
    m.max("max_corpus_docs", docs.len() as u64);
    let n_variants = args.n(400_000, 6_000_000);
    let seed = args.seed;
    let threads = cores();
    let parts = par_shards(threads, |i, t| {
        let mut w = m.worker();
        let schemas = ffi_schemas();
        // corpus documents as they are
        for (k, d) in docs.iter().enumerate() {
            if k % t == i {
                check_policy(&mut w, &schemas, &sigs, &d.text, d.md, &format!("corpus:{}", d.path), k as u64);
            }
        }
        // accepted variants
        let mut k = i as u64;
        while k < n_variants {
            let mut rng = Rng::new(seed).fork(27).fork(k);
            let inp = corpus::gen_front_input(&mut rng, k, &docs);
            if inp.class != "random" && inp.class != "generated-expr" {
                let md = inp.text.starts_with("---");
                check_policy(&mut w, &schemas, &sigs, &inp.text, md, &format!("{}:{}", inp.class, inp.detail), k);
            }
            k += t as u64;
        }
        w
    });
    for w in parts {
        m.absorb(w);
    }
    finish_all(&args, vec![m]);
}
