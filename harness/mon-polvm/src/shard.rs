//! Child-process sharding. A workload that can abort the process (stack overflow, allocation
//! failure) is run as `n` children of the monitor binary itself (`--set shard=i/n`); each child
//! writes its partial `Monitor` as JSON and a progress word (the case it is working on), so an
//! abnormal exit can be attributed to a shard and to a case, which is then replayed alone.

use std::{
    fs,
    io::Read,
    os::unix::{fs::FileExt, process::ExitStatusExt},
    path::{Path, PathBuf},
    process::{Command, Stdio},
    time::{Duration, Instant},
};

use vcore::*;

#[derive(Clone, Debug)]
pub struct ShardSpec {
    pub idx: u64,
    pub n: u64,
    /// Run only this case (single-case replay).
    pub only: Option<u64>,
    /// Resume point (first case index to consider) and cases to skip (they abort the process).
    pub from: u64,
    pub skip: Vec<u64>,
    pub dump: PathBuf,
    pub progress: Option<PathBuf>,
}

/// `Some` when this process is a shard child.
pub fn shard_spec(args: &Args) -> Option<ShardSpec> {
    let s = args.get("shard")?;
    let (i, n) = s.split_once('/')?;
    Some(ShardSpec {
        idx: i.parse().ok()?,
        n: n.parse().ok()?,
        only: args.get("only").and_then(|v| v.parse().ok()),
        from: args.get_u64("from", 0),
        skip: args.get("skip").map(|v| v.split(',').filter_map(|x| x.parse().ok()).collect()).unwrap_or_default(),
        dump: PathBuf::from(args.get("dump")?),
        progress: args.get("progress").map(PathBuf::from),
    })
}

/// Progress word shared with the parent through a tmpfs file.
pub struct Progress(Option<fs::File>);

impl Progress {
    pub fn new(p: Option<&Path>) -> Self {
        Progress(p.and_then(|p| fs::OpenOptions::new().create(true).write(true).truncate(false).open(p).ok()))
    }
    pub fn set(&self, case: u64) {
        if let Some(f) = &self.0 {
            let _ = f.write_all_at(&case.to_le_bytes(), 0);
        }
    }
}

fn read_progress(p: &Path) -> Option<u64> {
    let mut b = [0u8; 8];
    let mut f = fs::File::open(p).ok()?;
    f.read_exact(&mut b).ok()?;
    Some(u64::from_le_bytes(b))
}

pub fn dump_monitor(m: &Monitor, path: &Path) {
    dump_monitor_at(m, path, None)
}

/// Dump with the index of the next case that has not been evaluated yet (periodic dumps).
pub fn dump_monitor_at(m: &Monitor, path: &Path, resume_at: Option<u64>) {
    let v = json!({
        "resume_at": resume_at,
        "evaluations": m.evaluations,
        "distinct": m.distinct.iter().collect::<Vec<_>>(),
        "counters": m.counters,
        "sets": m.sets,
        "samples": m.samples,
        "violations": m.violations.iter().map(|v| json!({"signature": v.signature, "detail": v.detail})).collect::<Vec<_>>(),
        "inconclusive": m.inconclusive,
    });
    let tmp = path.with_extension("tmp");
    fs::write(&tmp, serde_json::to_vec(&v).unwrap()).expect("write dump");
    fs::rename(&tmp, path).expect("rename dump");
}

pub fn absorb_dump(m: &mut Monitor, path: &Path) -> bool {
    absorb_dump_v(m, path).is_some()
}

/// Absorb a dump; returns its `resume_at` field (Null when the shard had finished).
pub fn absorb_dump_v(m: &mut Monitor, path: &Path) -> Option<Value> {
    let txt = fs::read(path).ok()?;
    let v = serde_json::from_slice::<Value>(&txt).ok()?;
    let mut w = m.worker();
    w.evaluations = v["evaluations"].as_u64().unwrap_or(0);
    if let Some(a) = v["distinct"].as_array() {
        w.distinct.extend(a.iter().filter_map(|x| x.as_u64()));
    }
    if let Some(o) = v["counters"].as_object() {
        for (k, x) in o {
            w.counters.insert(k.clone(), x.as_u64().unwrap_or(0));
        }
    }
    if let Some(o) = v["sets"].as_object() {
        for (k, x) in o {
            let e = w.sets.entry(k.clone()).or_default();
            for s in x.as_array().into_iter().flatten() {
                if let Some(s) = s.as_str() {
                    e.insert(s.to_string());
                }
            }
        }
    }
    if let Some(a) = v["samples"].as_array() {
        w.samples = a.clone();
    }
    for x in v["violations"].as_array().into_iter().flatten() {
        w.violations.push(Violation {
            signature: x["signature"].as_str().unwrap_or("?").into(),
            detail: x["detail"].clone(),
        });
    }
    for x in v["inconclusive"].as_array().into_iter().flatten() {
        if let Some(s) = x.as_str() {
            w.inconclusive.push(s.into());
        }
    }
    m.absorb(w);
    Some(v["resume_at"].clone())
}

#[derive(Debug)]
pub enum ChildOutcome {
    /// Exit 0 and a dump was absorbed.
    Done,
    /// Killed by a signal, non-zero exit, or no dump.
    Abnormal {
        shard: u64,
        code: Option<i32>,
        signal: Option<i32>,
        stderr_tail: String,
        last_case: Option<u64>,
        /// From the last periodic dump (which was absorbed): first case not covered by it.
        resume_at: Option<u64>,
    },
    /// Exceeded the time cap (not a verdict).
    TimedOut { shard: u64, last_case: Option<u64> },
}

impl ChildOutcome {
    pub fn kind(&self) -> String {
        match self {
            ChildOutcome::Done => "done".into(),
            ChildOutcome::TimedOut { .. } => "timeout".into(),
            ChildOutcome::Abnormal { signal, code, stderr_tail, .. } => {
                if stderr_tail.contains("has overflowed its stack") {
                    "stack-overflow".into()
                } else if stderr_tail.contains("memory allocation of") {
                    "alloc-failure".into()
                } else if let Some(s) = signal {
                    format!("signal-{s}")
                } else {
                    format!("exit-{}", code.unwrap_or(-1))
                }
            }
        }
    }
}

fn base_child_args(args: &Args, prop: &str) -> Vec<String> {
    let mut a = vec![
        "--tier".into(),
        args.tier.as_str().into(),
        "--seed".into(),
        args.seed.to_string(),
        "--prop".into(),
        prop.into(),
        "--engine".into(),
        args.engine.clone(),
        "--out".into(),
        args.out.display().to_string(),
        "--scale".into(),
        args.scale.to_string(),
    ];
    for (k, v) in &args.extra {
        if matches!(k.as_str(), "shard" | "only" | "dump" | "progress" | "from" | "skip") {
            continue;
        }
        a.push("--set".into());
        a.push(format!("{k}={v}"));
    }
    a
}

/// Spawn one child per `(shard index, extra --set pairs)` and wait for all of them.
/// Dumps are absorbed into `m`. Children run concurrently (at most `parallel` at a time).
pub fn run_children(
    args: &Args,
    prop: &str,
    m: &mut Monitor,
    scratch: &Path,
    specs: &[(u64, u64, Vec<(String, String)>)],
    parallel: usize,
    cap: Duration,
) -> Vec<ChildOutcome> {
    struct Running {
        pos: usize,
        shard: u64,
        child: std::process::Child,
        dump: PathBuf,
        progress: PathBuf,
        errf: PathBuf,
        started: Instant,
    }
    let exe = std::env::current_exe().expect("current_exe");
    let mut out: Vec<Option<ChildOutcome>> = (0..specs.len()).map(|_| None).collect();
    let mut running: Vec<Running> = vec![];
    let mut next = 0usize;
    let tag = std::process::id();
    loop {
        while running.len() < parallel.max(1) && next < specs.len() {
            let (idx, n, extra) = &specs[next];
            let dump = scratch.join(format!("dump-{tag}-{next}.json"));
            let progress = scratch.join(format!("progress-{tag}-{next}"));
            let errf = scratch.join(format!("stderr-{tag}-{next}"));
            let _ = fs::remove_file(&dump);
            let _ = fs::remove_file(&progress);
            let mut a = base_child_args(args, prop);
            for (k, v) in [
                ("shard".to_string(), format!("{idx}/{n}")),
                ("dump".to_string(), dump.display().to_string()),
                ("progress".to_string(), progress.display().to_string()),
            ]
            .into_iter()
            .chain(extra.iter().cloned())
            {
                a.push("--set".into());
                a.push(format!("{k}={v}"));
            }
            let ef = fs::File::create(&errf).expect("stderr file");
            let child = Command::new(&exe)
                .args(&a)
                .stdin(Stdio::null())
                .stdout(Stdio::null())
                .stderr(Stdio::from(ef))
                .spawn()
                .expect("spawn shard child");
            running.push(Running { pos: next, shard: *idx, child, dump, progress, errf, started: Instant::now() });
            next += 1;
        }
        if running.is_empty() {
            break;
        }
        let mut i = 0;
        let mut progressed = false;
        while i < running.len() {
            let r = &mut running[i];
            let status = r.child.try_wait().expect("try_wait");
            let timed_out = status.is_none() && r.started.elapsed() > cap;
            if status.is_none() && !timed_out {
                i += 1;
                continue;
            }
            progressed = true;
            let mut r = running.swap_remove(i);
            let last_case = read_progress(&r.progress);
            let oc = if timed_out {
                let _ = r.child.kill();
                let _ = r.child.wait();
                // Keep whatever the child managed to dump periodically.
                let _ = absorb_dump_v(m, &r.dump);
                ChildOutcome::TimedOut { shard: r.shard, last_case }
            } else {
                let st = status.unwrap();
                let dumped = absorb_dump_v(m, &r.dump);
                if st.success() && dumped.is_some() {
                    ChildOutcome::Done
                } else {
                    let tail = fs::read(&r.errf)
                        .map(|b| {
                            let s = String::from_utf8_lossy(&b).to_string();
                            let n = s.len().saturating_sub(1500);
                            let mut k = n;
                            while !s.is_char_boundary(k) {
                                k += 1;
                            }
                            s[k..].to_string()
                        })
                        .unwrap_or_default();
                    ChildOutcome::Abnormal {
                        shard: r.shard,
                        code: st.code(),
                        signal: st.signal(),
                        stderr_tail: tail,
                        last_case,
                        resume_at: dumped.and_then(|v| v.as_u64()),
                    }
                }
            };
            let _ = fs::remove_file(&r.dump);
            let _ = fs::remove_file(&r.progress);
            let _ = fs::remove_file(&r.errf);
            out[r.pos] = Some(oc);
        }
        if !progressed {
            std::thread::sleep(Duration::from_millis(5));
        }
    }
    out.into_iter().map(|o| o.expect("outcome")).collect()
}

/// Run `f` on a thread with the given stack size and return its result (panics propagate).
pub fn on_stack<T: Send>(bytes: usize, f: impl FnOnce() -> T + Send) -> T {
    std::thread::scope(|s| {
        std::thread::Builder::new()
            .stack_size(bytes)
            .spawn_scoped(s, f)
            .expect("spawn")
            .join()
            .expect("worker thread panicked")
    })
}


/// Child side: evaluate the cases of this shard (`i % n == idx`, `i >= from`, not skipped), with a
/// progress word before each case and a cumulative dump every `dump_every` cases.
pub fn child_loop(spec: &ShardSpec, total: u64, dump_every: u64, m: &mut Monitor, mut f: impl FnMut(&mut Monitor, u64)) {
    let progress = Progress::new(spec.progress.as_deref());
    if let Some(only) = spec.only {
        progress.set(only);
        f(m, only);
    } else {
        let mut i = spec.idx;
        while i < spec.from {
            i += spec.n;
        }
        let mut since = 0;
        while i < total {
            if !spec.skip.contains(&i) {
                progress.set(i);
                f(m, i);
                since += 1;
                if since >= dump_every {
                    since = 0;
                    dump_monitor_at(m, &spec.dump, Some(i + spec.n));
                }
            }
            i += spec.n;
        }
    }
    dump_monitor_at(m, &spec.dump, None);
}

#[derive(Clone, Debug)]
pub struct AbortReport {
    pub shard: u64,
    pub case: u64,
    pub kind: String,
    pub stderr: String,
    /// The case alone aborts again (None: not re-checked because enough of this kind were).
    pub confirmed: Option<bool>,
    /// Last `CRUMB <text>` line the single-case child printed to stderr before dying.
    pub crumb: Option<String>,
}

pub fn last_crumb(stderr: &str) -> Option<String> {
    stderr.lines().rev().find_map(|l| l.strip_prefix("CRUMB ").map(|s| s.trim().to_string()))
}

/// Parent side: run `n` shard children to completion, restarting a shard after the case that
/// killed it (the partial dump is kept, the aborting case is skipped and reported).
pub fn run_resumable(
    args: &Args,
    prop: &str,
    m: &mut Monitor,
    scratch: &Path,
    n: u64,
    cap: Duration,
    max_restarts: u32,
) -> Vec<AbortReport> {
    struct St {
        idx: u64,
        from: u64,
        skip: Vec<u64>,
    }
    let mut pending: Vec<St> = (0..n).map(|i| St { idx: i, from: 0, skip: vec![] }).collect();
    let mut reports: Vec<AbortReport> = vec![];
    let mut restarts = 0u32;
    let started = Instant::now();
    while !pending.is_empty() {
        let specs: Vec<_> = pending
            .iter()
            .map(|s| {
                let mut e = vec![("from".to_string(), s.from.to_string())];
                if !s.skip.is_empty() {
                    e.push(("skip".to_string(), s.skip.iter().map(|x| x.to_string()).collect::<Vec<_>>().join(",")));
                }
                (s.idx, n, e)
            })
            .collect();
        let left = cap.saturating_sub(started.elapsed()).max(Duration::from_secs(5));
        let out = run_children(args, prop, m, scratch, &specs, n as usize, left);
        let mut next = vec![];
        for (st, o) in pending.into_iter().zip(out) {
            match o {
                ChildOutcome::Done => {}
                ChildOutcome::TimedOut { shard, last_case } => {
                    m.inconclusive(&format!("shard {shard} hit the time cap at case {last_case:?}"));
                }
                ChildOutcome::Abnormal { shard, last_case, ref stderr_tail, resume_at, .. } => {
                    let kind = o.kind();
                    let Some(case) = last_case else {
                        m.inconclusive(&format!("shard {shard} died ({kind}) before its first case: {stderr_tail}"));
                        continue;
                    };
                    let same_kind = reports.iter().filter(|r| r.kind == kind).count();
                    let mut crumb = None;
                    let confirmed = if same_kind < 3 {
                        let mut tmp = m.worker();
                        let one = vec![(0u64, 1u64, vec![("only".to_string(), case.to_string())])];
                        let r = run_children(args, prop, &mut tmp, scratch, &one, 1, Duration::from_secs(300));
                        if let ChildOutcome::Abnormal { stderr_tail, .. } = &r[0] {
                            crumb = last_crumb(stderr_tail);
                            Some(true)
                        } else {
                            Some(false)
                        }
                    } else {
                        None
                    };
                    reports.push(AbortReport { shard, case, kind: kind.clone(), stderr: stderr_tail.clone(), confirmed, crumb });
                    restarts += 1;
                    if restarts > max_restarts {
                        m.inconclusive(&format!("more than {max_restarts} shard restarts; shard {shard} abandoned after case {case}"));
                        continue;
                    }
                    let mut skip = st.skip.clone();
                    skip.push(case);
                    next.push(St { idx: st.idx, from: resume_at.unwrap_or(st.from).max(st.from), skip });
                }
            }
        }
        pending = next;
    }
    reports
}
