//! Shared pieces for the policy-toolchain monitors (C25-C28, C31):
//! child-process sharding, value generators, harness `MachineIO`s, FFI schemas,
//! the policy corpus and its mutators.

pub mod corpus;
pub mod io;
pub mod shard;
pub mod vals;

use std::path::PathBuf;

use aranya_crypto::keystore::memstore::MemStore;
use aranya_policy_vm::ffi::{self, FfiModule as _, ModuleSchema};
use aranya_policy_vm::ident;

/// Root of the repository under test (`--set repo=...`, `VERIF_REPO`, default `/repo`).
pub fn repo_root(args: &vcore::Args) -> PathBuf {
    if let Some(r) = args.get("repo") {
        return PathBuf::from(r);
    }
    if let Ok(r) = std::env::var("VERIF_REPO") {
        return PathBuf::from(r);
    }
    // A scratch harness lives in /tmp/scratch-<name>-harness; its worktree is /tmp/scratch-<name>.
    let manifest = env!("CARGO_MANIFEST_DIR");
    if let Some(i) = manifest.find("-harness/") {
        let w = &manifest[..i];
        if w.starts_with("/tmp/scratch-") && std::path::Path::new(w).is_dir() {
            return PathBuf::from(w);
        }
    }
    PathBuf::from("/repo")
}

const TEST_SCHEMA: ModuleSchema<'static> = ModuleSchema {
    name: ident!("test"),
    functions: &[ffi::Func {
        name: ident!("doit"),
        args: &[ffi::Arg {
            name: ident!("x"),
            vtype: ffi::Type::Int,
        }],
        return_type: ffi::Type::Bool,
    }],
    structs: &[],
    enums: &[],
};

const PRINT_SCHEMA: ModuleSchema<'static> = ModuleSchema {
    name: ident!("print"),
    functions: &[ffi::Func {
        name: ident!("print"),
        args: &[ffi::Arg {
            name: ident!("s"),
            vtype: ffi::Type::String,
        }],
        return_type: ffi::Type::String,
    }],
    structs: &[],
    enums: &[],
};

/// The FFI schemas handed to the compiler: the repo's real FFI modules (so the example policies
/// compile) plus the two small test schemas used by the compiler's and the VM's own test-suites.
pub fn ffi_schemas() -> Vec<ModuleSchema<'static>> {
    vec![
        TEST_SCHEMA,
        PRINT_SCHEMA,
        aranya_crypto_ffi::Ffi::<MemStore>::SCHEMA,
        aranya_device_ffi::FfiDevice::SCHEMA,
        aranya_envelope_ffi::Ffi::SCHEMA,
        aranya_idam_ffi::Ffi::<MemStore>::SCHEMA,
        aranya_perspective_ffi::FfiPerspective::SCHEMA,
    ]
}
