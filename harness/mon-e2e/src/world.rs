//! Shared world of the signing-policy monitors: devices with real engines and keystores, the
//! signing policy, owned wire commands, sync capture and replica snapshots.
use std::{
    borrow::Cow,
    collections::{BTreeMap, BTreeSet},
    sync::{Arc, Mutex},
};

use aranya_crypto::{
    Csprng, DeviceId, EncryptionKey, IdentityKey, KeyStoreExt as _, Rng as OsRng, SigningKey,
    default::{DefaultCipherSuite, DefaultEngine},
    keystore::memstore::MemStore,
};
use aranya_crypto_ffi::Ffi as CryptoFfi;
use aranya_device_ffi::FfiDevice as DeviceFfi;
use aranya_envelope_ffi::Ffi as EnvelopeFfi;
use aranya_idam_ffi::Ffi as IdamFfi;
use aranya_perspective_ffi::FfiPerspective as PerspectiveFfi;
use aranya_policy_compiler::Compiler;
use aranya_policy_lang::lang::parse_policy_str;
use aranya_policy_vm::{
    Machine, Struct, Value,
    ast::{Identifier, Text, Version},
    ffi::FfiModule as _,
};
use aranya_runtime::{
    Address, ClientState, CmdId, Command, CommandExt as _, FfiCallable, GraphId,
    MAX_SYNC_MESSAGE_SIZE, PeerCache, Prior, Priority, Query as _, RuntimeBuffers,
    Segment as _, Storage as _, StorageProvider as _, SyncRequester, TraversalBuffer,
    TraversalBuffers, VmAction, VmEffect, VmPolicy,
    linear::testing::MemStorageProvider, testing::dsl::dispatch,
};
use vcore::*;

use crate::{OneStore, RecSink};

pub type CS = DefaultCipherSuite;
pub type CE = DefaultEngine<DetRng, CS>;
pub type Client = ClientState<OneStore<CE>, MemStorageProvider>;
pub type J = vcore::Value;

/// Deterministic CSPRNG so that keys, signatures and command ids depend only on the seed.
#[derive(Clone)]
pub struct DetRng(pub Arc<Mutex<Rng>>);

impl DetRng {
    pub fn new(rng: Rng) -> Self {
        DetRng(Arc::new(Mutex::new(rng)))
    }
}

impl Csprng for DetRng {
    fn fill_bytes(&self, dst: &mut [u8]) {
        self.0.lock().unwrap().fill(dst);
    }
}

pub const POLICY: &str = r#"
use crypto
use device
use envelope
use idam
use perspective

struct PublicKeys {
    ident_key bytes,
    sign_key bytes,
    enc_key bytes,
}

fact DeviceSignPubKey[device_id id]=>{key_id id, key bytes}
fact Owner[]=>{device_id id}
fact Counter[name int]=>{value int}
fact Note[author id, seq int]=>{text string}

effect Initialized { device_id id }
effect DeviceAdded { device_id id }
effect CounterIs { name int, value int, by id }
effect CounterGone { name int, by id }
effect NoteIs { author id, seq int, text string }

function seal_command(payload bytes) struct Envelope {
    let parent_id = perspective::head_id()
    let author_id = device::current_device_id()
    let author_sign_id = match query DeviceSignPubKey[device_id: author_id] {
        Some(pk) => Some(pk.key_id)
        None => None
    }
    let signed = crypto::sign(author_sign_id, payload)
    return envelope::new(parent_id, author_id, signed.command_id, signed.signature)
}

function open_envelope(payload bytes, sealed_envelope struct Envelope) unit {
    let author_id = envelope::author_id(sealed_envelope)
    let author_sign_pk = match query DeviceSignPubKey[device_id: author_id] {
        Some(pk) => Some(pk.key)
        None => None
    }
    return crypto::verify(
        author_sign_pk,
        envelope::parent_id(sealed_envelope),
        payload,
        envelope::command_id(sealed_envelope),
        envelope::signature(sealed_envelope),
    )
}

command Init {
    attributes { init: true }
    fields { owner_keys struct PublicKeys, nonce int }
    seal {
        let parent_id = perspective::head_id()
        let author_id = device::current_device_id()
        let author_sign_key_id = idam::derive_sign_key_id(this.owner_keys.sign_key)
        let signed = crypto::sign(Some(author_sign_key_id), payload)
        return envelope::new(parent_id, author_id, signed.command_id, signed.signature)
    }
    open {
        let author_sign_key = this.owner_keys.sign_key
        return crypto::verify(
            Some(author_sign_key),
            envelope::parent_id(envelope),
            payload,
            envelope::command_id(envelope),
            envelope::signature(envelope),
        )
    }
    policy {
        let author_id = envelope::author_id(envelope)
        check author_id == idam::derive_device_id(this.owner_keys.ident_key) else test_fail("not authorized")
        let sign_key_id = idam::derive_sign_key_id(this.owner_keys.sign_key)
        finish {
            create DeviceSignPubKey[device_id: author_id]=>{key_id: sign_key_id, key: this.owner_keys.sign_key}
            create Owner[]=>{device_id: author_id}
            emit Initialized{device_id: author_id}
        }
    }
}

command AddDevice {
    attributes { priority: 100 }
    fields { device_keys struct PublicKeys }
    seal { return seal_command(payload) }
    open { return open_envelope(payload, envelope) }
    policy {
        let author_id = envelope::author_id(envelope)
        let owner = query Owner[] or recall reject()
        check author_id == owner.device_id else test_fail("not authorized")
        let new_device_id = idam::derive_device_id(this.device_keys.ident_key)
        check !exists DeviceSignPubKey[device_id: new_device_id] else test_fail("already added")
        let new_sign_key_id = idam::derive_sign_key_id(this.device_keys.sign_key)
        finish {
            create DeviceSignPubKey[device_id: new_device_id]=>{key_id: new_sign_key_id, key: this.device_keys.sign_key}
            emit DeviceAdded{device_id: new_device_id}
        }
    }
    recall reject() {}
}

command SetCounter {
    attributes { priority: 50 }
    fields { name int, value int }
    seal { return seal_command(payload) }
    open { return open_envelope(payload, envelope) }
    policy {
        let author_id = envelope::author_id(envelope)
        let cur = query Counter[name: this.name]
        match cur {
            Some(c) => {
                finish {
                    update Counter[name: this.name]=>{value: c.value} to {value: this.value}
                    emit CounterIs{name: this.name, value: this.value, by: author_id}
                }
            }
            None => {
                finish {
                    create Counter[name: this.name]=>{value: this.value}
                    emit CounterIs{name: this.name, value: this.value, by: author_id}
                }
            }
        }
    }
}

command AddCounter {
    attributes { priority: 50 }
    fields { name int, value int }
    seal { return seal_command(payload) }
    open { return open_envelope(payload, envelope) }
    policy {
        let author_id = envelope::author_id(envelope)
        let cur = query Counter[name: this.name]
        match cur {
            Some(c) => {
                let nv = saturating_add(c.value, this.value)
                finish {
                    update Counter[name: this.name]=>{value: c.value} to {value: nv}
                    emit CounterIs{name: this.name, value: nv, by: author_id}
                }
            }
            None => {
                finish {
                    create Counter[name: this.name]=>{value: this.value}
                    emit CounterIs{name: this.name, value: this.value, by: author_id}
                }
            }
        }
    }
}

command DelCounter {
    attributes { priority: 50 }
    fields { name int }
    seal { return seal_command(payload) }
    open { return open_envelope(payload, envelope) }
    policy {
        let author_id = envelope::author_id(envelope)
        check exists Counter[name: this.name] else recall reject()
        finish {
            delete Counter[name: this.name]
            emit CounterGone{name: this.name, by: author_id}
        }
    }
    recall reject() {}
}

command ZeroCounter {
    attributes { priority: 50 }
    fields { name int }
    seal { return seal_command(payload) }
    open { return open_envelope(payload, envelope) }
    policy {
        let author_id = envelope::author_id(envelope)
        let cur = query Counter[name: this.name] or recall reject()
        finish {
            update Counter[name: this.name]=>{value: cur.value} to {value: 0}
            emit CounterIs{name: this.name, value: 0, by: author_id}
        }
    }
    recall reject() {}
}

command PostNote {
    attributes { priority: 40 }
    fields { seq int, text string }
    seal { return seal_command(payload) }
    open { return open_envelope(payload, envelope) }
    policy {
        let author_id = envelope::author_id(envelope)
        let cur = query Note[author: author_id, seq: this.seq]
        match cur {
            Some(n) => {
                finish {
                    update Note[author: author_id, seq: this.seq]=>{text: n.text} to {text: this.text}
                    emit NoteIs{author: author_id, seq: this.seq, text: this.text}
                }
            }
            None => {
                finish {
                    create Note[author: author_id, seq: this.seq]=>{text: this.text}
                    emit NoteIs{author: author_id, seq: this.seq, text: this.text}
                }
            }
        }
    }
}

command ClearNote {
    attributes { priority: 40 }
    fields { seq int, text string }
    seal { return seal_command(payload) }
    open { return open_envelope(payload, envelope) }
    policy {
        let author_id = envelope::author_id(envelope)
        check exists Note[author: author_id, seq: this.seq] else recall reject()
        finish {
            delete Note[author: author_id, seq: this.seq]
            emit NoteIs{author: author_id, seq: this.seq, text: ""}
        }
    }
    recall reject() {}
}

command ForceCounter {
    attributes { priority: 70 }
    fields { name int, value int }
    seal { return seal_command(payload) }
    open { return open_envelope(payload, envelope) }
    policy {
        let author_id = envelope::author_id(envelope)
        let cur = query Counter[name: this.name]
        match cur {
            Some(c) => {
                finish {
                    update Counter[name: this.name]=>{value: c.value} to {value: this.value}
                    emit CounterIs{name: this.name, value: this.value, by: author_id}
                }
            }
            None => {
                finish {
                    create Counter[name: this.name]=>{value: this.value}
                    emit CounterIs{name: this.name, value: this.value, by: author_id}
                }
            }
        }
    }
}

command SealCounter {
    attributes { finalize: true }
    fields { name int, value int }
    seal { return seal_command(payload) }
    open { return open_envelope(payload, envelope) }
    policy {
        let author_id = envelope::author_id(envelope)
        let owner = query Owner[] or recall reject()
        check author_id == owner.device_id else recall reject()
        let cur = query Counter[name: this.name]
        match cur {
            Some(c) => {
                finish {
                    update Counter[name: this.name]=>{value: c.value} to {value: this.value}
                    emit CounterIs{name: this.name, value: this.value, by: author_id}
                }
            }
            None => {
                finish {
                    create Counter[name: this.name]=>{value: this.value}
                    emit CounterIs{name: this.name, value: this.value, by: author_id}
                }
            }
        }
    }
    recall reject() {}
}

action init(owner_keys struct PublicKeys, nonce int) {
    publish Init { owner_keys: owner_keys, nonce: nonce }
}
action add_device(device_keys struct PublicKeys) {
    publish AddDevice { device_keys: device_keys }
}
action set_counter(name int, value int) { publish SetCounter { name: name, value: value } }
action add_counter(name int, value int) { publish AddCounter { name: name, value: value } }
action del_counter(name int) { publish DelCounter { name: name } }
action zero_counter(name int) { publish ZeroCounter { name: name } }
action post_note(seq int, text string) { publish PostNote { seq: seq, text: text } }
action clear_note(seq int, text string) { publish ClearNote { seq: seq, text: text } }
action force_counter(name int, value int) { publish ForceCounter { name: name, value: value } }
action seal_counter(name int, value int) { publish SealCounter { name: name, value: value } }
action set_then_add(name int, v1 int, v2 int, seq int, text string) {
    publish SetCounter { name: name, value: v1 }
    publish AddCounter { name: name, value: v2 }
    publish PostNote { seq: seq, text: text }
}
"#;

pub const FACT_NAMES: &[&str] = &["DeviceSignPubKey", "Owner", "Counter", "Note"];

// ---------------------------------------------------------------------------
// Devices
// ---------------------------------------------------------------------------

pub struct DeviceKeys {
    pub device_id: DeviceId,
    pub public_keys: Value,
}

pub struct Device {
    pub name: &'static str,
    pub cs: Client,
    pub id: DeviceId,
    pub sink: RecSink,
    pub bufs: RuntimeBuffers<<MemStorageProvider as aranya_runtime::StorageProvider>::Segment>,
    /// Effects this device produced/observed per command id at origin evaluation.
    pub effects_by_cmd: BTreeMap<[u8; 32], Vec<VmEffect>>,
}

pub fn make_keys(eng: &CE, store: &mut MemStore, rng: &DetRng) -> DeviceKeys {
    let device_id = store.insert_key(eng, IdentityKey::<CS>::new(rng)).expect("insert ident");
    let sign_id = store.insert_key(eng, SigningKey::<CS>::new(rng)).expect("insert sign");
    let enc_id = store.insert_key(eng, EncryptionKey::<CS>::new(rng)).expect("insert enc");
    let ident_pk = store.get_key::<_, IdentityKey<CS>>(eng, device_id).unwrap().unwrap().public().unwrap();
    let sign_pk = store.get_key::<_, SigningKey<CS>>(eng, sign_id).unwrap().unwrap().public().unwrap();
    let enc_pk = store.get_key::<_, EncryptionKey<CS>>(eng, enc_id).unwrap().unwrap().public().unwrap();
    let f = |n: &str, b: Vec<u8>| (n.parse::<Identifier>().unwrap(), Value::Bytes(b));
    let public_keys = Value::Struct(Struct::new(
        "PublicKeys".parse::<Identifier>().unwrap(),
        [
            f("ident_key", postcard::to_allocvec(&ident_pk).unwrap()),
            f("sign_key", postcard::to_allocvec(&sign_pk).unwrap()),
            f("enc_key", postcard::to_allocvec(&enc_pk).unwrap()),
        ],
    ));
    DeviceKeys { device_id, public_keys }
}

pub fn make_device(name: &'static str, machine: &Machine, rng: &DetRng) -> (Device, DeviceKeys) {
    let (eng, _) = DefaultEngine::<DetRng, CS>::from_entropy(rng.clone());
    let mut store = MemStore::new();
    let keys = make_keys(&eng, &mut store, rng);
    let ffis: Vec<Box<dyn FfiCallable<CE> + Send + 'static>> = vec![
        Box::from(CryptoFfi::new(store.clone())),
        Box::from(DeviceFfi::new(keys.device_id)),
        Box::from(EnvelopeFfi),
        Box::from(IdamFfi::new(store)),
        Box::from(PerspectiveFfi),
    ];
    let policy = VmPolicy::new(machine.clone(), eng, ffis).expect("VmPolicy::new");
    let dev = Device {
        name,
        cs: ClientState::new(OneStore(policy), MemStorageProvider::default()),
        id: keys.device_id,
        sink: RecSink::new(),
        bufs: RuntimeBuffers::new(),
        effects_by_cmd: BTreeMap::new(),
    };
    (dev, keys)
}

pub fn compile_machine() -> Machine {
    let ast = parse_policy_str(POLICY, Version::V2).unwrap_or_else(|e| panic!("parse: {e}"));
    let module = Compiler::new(&ast)
        .ffi_modules(&[
            CryptoFfi::<MemStore>::SCHEMA,
            DeviceFfi::SCHEMA,
            EnvelopeFfi::SCHEMA,
            IdamFfi::<MemStore>::SCHEMA,
            PerspectiveFfi::SCHEMA,
        ])
        .debug(true)
        .compile()
        .unwrap_or_else(|e| panic!("compile: {e}"));
    Machine::from_module(module).expect("machine")
}

pub fn act(name: &str, args: Vec<Value>) -> VmAction<'static> {
    VmAction { name: name.parse::<Identifier>().unwrap(), args: Cow::Owned(args) }
}

// ---------------------------------------------------------------------------
// Wire commands
// ---------------------------------------------------------------------------

#[derive(Clone, Debug)]
pub struct OwnedCmd {
    pub priority: Priority,
    pub id: CmdId,
    pub parent: Prior<Address>,
    pub policy: Option<Vec<u8>>,
    pub data: Vec<u8>,
}

impl Command for OwnedCmd {
    fn priority(&self) -> Priority {
        self.priority.clone()
    }
    fn id(&self) -> CmdId {
        self.id
    }
    fn parent(&self) -> Prior<Address> {
        self.parent
    }
    fn policy(&self) -> Option<&[u8]> {
        self.policy.as_deref()
    }
    fn bytes(&self) -> &[u8] {
        &self.data
    }
}

impl OwnedCmd {
    pub fn from_cmd(c: &impl Command) -> Self {
        OwnedCmd {
            priority: c.priority(),
            id: c.id(),
            parent: c.parent(),
            policy: c.policy().map(|p| p.to_vec()),
            data: c.bytes().to_vec(),
        }
    }
    pub fn is_merge(&self) -> bool {
        matches!(self.parent, Prior::Merge(..))
    }
    pub fn json(&self) -> J {
        json!({"id": self.id.to_string(), "priority": format!("{:?}", self.priority), "parent": format!("{:?}", self.parent),
            "policy": self.policy.as_ref().map(|p| hex(p)), "data": hex(&self.data)})
    }
}


/// One real requester/responder exchange: the commands `dst` lacks, as `src` serves them.
pub fn fetch(graph: GraphId, dst: &mut Device, src: &mut Device) -> Result<Vec<OwnedCmd>, String> {
    let mut requester = SyncRequester::new(graph, OsRng);
    let mut buf = vec![0u8; MAX_SYNC_MESSAGE_SIZE];
    let mut target = vec![0u8; MAX_SYNC_MESSAGE_SIZE];
    let cache = PeerCache::new();
    let mut traversal = TraversalBuffer::default();
    let (len, _) = requester
        .poll(&mut buf, dst.cs.provider(), &cache.session_heads(), &mut traversal)
        .map_err(|e| format!("requester.poll: {e}"))?;
    let mut tb = TraversalBuffers::default();
    let rlen = dispatch(&buf[..len], &mut target, src.cs.provider(), &mut PeerCache::new(), &mut tb)
        .map_err(|e| format!("dispatch: {e}"))?;
    if rlen == 0 {
        return Ok(vec![]);
    }
    match requester.receive(&target[..rlen]).map_err(|e| format!("requester.receive: {e}"))? {
        Some(cmds) => Ok(cmds.iter().map(OwnedCmd::from_cmd).collect()),
        None => Ok(vec![]),
    }
}

// ---------------------------------------------------------------------------
// Replica state snapshots
// ---------------------------------------------------------------------------

#[derive(Clone, Default, PartialEq, Eq, Debug)]
pub struct Snap {
    pub exists: bool,
    /// id -> (max_cut, data hash, parents)
    pub cmds: BTreeMap<[u8; 32], (u64, u64, Vec<[u8; 32]>)>,
    pub heads: BTreeSet<[u8; 32]>,
    /// id -> (priority class Merge=0 < Basic=1 < Finalize=2 < Init=3, basic value)
    pub prios: BTreeMap<[u8; 32], (u8, u32)>,
    pub facts: Vec<Vec<(Vec<Vec<u8>>, Vec<u8>)>>,
}

pub fn idb(id: CmdId) -> [u8; 32] {
    *id.as_array()
}

pub fn snapshot(cs: &mut Client, graph: GraphId) -> Result<Snap, String> {
    let storage = match cs.provider().get_storage(graph) {
        Ok(s) => s,
        Err(aranya_runtime::StorageError::NoSuchStorage) => return Ok(Snap::default()),
        Err(e) => return Err(format!("get_storage: {e}")),
    };
    let mut snap = Snap { exists: true, ..Snap::default() };
    let heads = storage.get_heads().map_err(|e| format!("get_heads: {e}"))?.clone();
    let mut stack = vec![];
    for la in heads.iter() {
        snap.heads.insert(idb(la.id));
        stack.push(la.location());
    }
    let mut seen: BTreeMap<String, u64> = BTreeMap::new();
    while let Some(loc) = stack.pop() {
        let key = format!("{:?}", loc.segment);
        let mc: u64 = format!("{}", loc.max_cut).parse().unwrap_or(u64::MAX);
        if seen.get(&key).is_some_and(|m| *m >= mc) {
            continue;
        }
        seen.insert(key, mc);
        let seg = storage.get_segment(loc).map_err(|e| format!("get_segment: {e}"))?;
        for c in seg.get_from(seg.first_location()) {
            let cmc = c.max_cut().map_err(|e| e.to_string())?;
            if cmc > loc.max_cut {
                break;
            }
            let parents = match c.parent() {
                Prior::None => vec![],
                Prior::Single(a) => vec![idb(a.id)],
                Prior::Merge(a, b) => vec![idb(a.id), idb(b.id)],
            };
            let cmcu: u64 = format!("{cmc}").parse().unwrap_or(u64::MAX);
            let pr = match c.priority() {
                Priority::Merge => (0u8, 0u32),
                Priority::Basic(n) => (1, n),
                Priority::Finalize => (2, 0),
                Priority::Init => (3, 0),
            };
            snap.prios.insert(idb(c.id()), pr);
            snap.cmds.insert(idb(c.id()), (cmcu, hash_of(&c.bytes()), parents));
        }
        match seg.prior() {
            Prior::None => {}
            Prior::Single(l) => stack.push(l),
            Prior::Merge(l, r) => {
                stack.push(l);
                stack.push(r);
            }
        }
    }
    let fc = storage.fact_cache().map_err(|e| format!("fact_cache: {e}"))?;
    for name in FACT_NAMES {
        let mut v = vec![];
        for f in fc.query_prefix(name, &[]).map_err(|e| format!("query_prefix: {e}"))? {
            let f = f.map_err(|e| format!("fact iter: {e}"))?;
            v.push((f.key.iter().map(|k| k.to_vec()).collect(), f.value.to_vec()));
        }
        snap.facts.push(v);
    }
    Ok(snap)
}


/// `random_action` plus the priority-70 and (for the owner only) finalize commands.
pub fn random_action_ext(rng: &mut Rng, is_owner: bool) -> (&'static str, Vec<Value>) {
    let name = Value::Int(rng.below(4) as i64);
    let val = Value::Int(rng.range(0, 40) as i64 - 10);
    match rng.below(100) {
        0..=9 => ("force_counter", vec![name, val]),
        10..=14 if is_owner => ("seal_counter", vec![name, val]),
        _ => random_action(rng),
    }
}

pub fn random_action(rng: &mut Rng) -> (&'static str, Vec<Value>) {
    let name = Value::Int(rng.below(4) as i64);
    let val = Value::Int(rng.range(0, 40) as i64 - 10);
    let seq = Value::Int(rng.below(3) as i64);
    let text = Value::String(format!("n{}", rng.below(50)).parse::<Text>().unwrap());
    match rng.weighted(&[20, 20, 6, 6, 18, 6, 10]) {
        0 => ("set_counter", vec![name, val]),
        1 => ("add_counter", vec![name, val]),
        2 => ("del_counter", vec![name]),
        3 => ("zero_counter", vec![name]),
        4 => ("post_note", vec![seq, text]),
        5 => ("clear_note", vec![seq, text]),
        _ => ("set_then_add", vec![name, val, Value::Int(rng.below(9) as i64), seq, text]),
    }
}
