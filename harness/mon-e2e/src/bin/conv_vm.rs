//! C01 / C03 / C04 with real `VmPolicy` replicas: the whole stack (policy VM, crypto engine,
//! envelope/signature FFI, runtime, linear storage) against a semantic model of the policy.
//!
//! 3-5 devices with real engines, keystores and the signing policy share one graph. They
//! publish counter/note commands by actions on their own replicas (most counter commands share
//! one priority, so braid order is mostly decided by command ids; a priority-70 and an owner-only
//! finalize command write the same facts) and receive ancestor-closed random
//! subsets of each other's wire commands in random topological orders. What every action
//! published is recorded from the call (action name, arguments, the command ids of the
//! effects it returned), never from the stored bytes.
//!
//! Oracles
//!  * C03/C04: after the actions and after the deliveries of every round, the decoded fact
//!    dump (Counter, Note) of every replica equals the reference state of its committed head
//!    set: the reference walks the command DAG (parents/priorities read back from storage),
//!    braids by (priority, id) exactly as graphkit's model does, and applies the recorded
//!    operations with the policy's semantics (a `check .. else recall` that fails in the braid
//!    is a no-op).
//!  * C01: every few rounds all replicas sync to a fixed point; then all of them, and a late
//!    joiner that receives the whole graph in one session, must report equal head sets, equal
//!    command sets, byte-equal fact dumps and equal hello heads.
use std::{
    collections::{BTreeMap, BTreeSet, HashMap},
    rc::Rc,
};

use aranya_policy_vm::{FactValue, Machine, Value};
use aranya_runtime::{GraphId, MemSpill};
use mon_e2e::{absorb_all, world::*};
use vcore::*;

const NAMES: &[&str] = &["D0", "D1", "D2", "D3", "D4"];

type Id = [u8; 32];

#[derive(Clone, Debug, PartialEq, Eq)]
enum Op {
    Set(i64, i64),
    /// priority-70 set
    Force(i64, i64),
    /// finalize set (owner only)
    Seal(i64, i64),
    Add(i64, i64),
    Del(i64),
    Zero(i64),
    Post(Id, i64, String),
    Clear(Id, i64),
    /// Init / AddDevice: no counter or note facts
    Admin,
}

#[derive(Clone, Default, PartialEq, Eq, Debug)]
struct Facts {
    counters: BTreeMap<i64, i64>,
    notes: BTreeMap<(Id, i64), String>,
}

impl Op {
    /// The priority the policy text declares for the command (class, value) or None for Admin.
    fn declared_priority(&self) -> Option<(u8, u32)> {
        match self {
            Op::Set(..) | Op::Add(..) | Op::Del(..) | Op::Zero(..) => Some((1, 50)),
            Op::Force(..) => Some((1, 70)),
            Op::Seal(..) => Some((2, 0)),
            Op::Post(..) | Op::Clear(..) => Some((1, 40)),
            Op::Admin => None,
        }
    }
}

impl Facts {
    fn apply(&mut self, op: &Op) {
        match op {
            Op::Set(n, v) | Op::Force(n, v) | Op::Seal(n, v) => {
                self.counters.insert(*n, *v);
            }
            Op::Add(n, v) => match self.counters.get_mut(n) {
                Some(c) => *c = c.saturating_add(*v),
                None => {
                    self.counters.insert(*n, *v);
                }
            },
            // `check exists .. else recall`: a no-op when the fact is gone
            Op::Del(n) => {
                self.counters.remove(n);
            }
            Op::Zero(n) => {
                if let Some(c) = self.counters.get_mut(n) {
                    *c = 0;
                }
            }
            Op::Post(a, s, t) => {
                self.notes.insert((*a, *s), t.clone());
            }
            Op::Clear(a, s) => {
                self.notes.remove(&(*a, *s));
            }
            Op::Admin => {}
        }
    }
    fn json(&self) -> J {
        json!({
            "counters": self.counters.iter().map(|(k, v)| json!([k, v])).collect::<Vec<_>>(),
            "notes": self.notes.iter().map(|((a, s), t)| json!([hex(&a[..4]), s, t])).collect::<Vec<_>>(),
        })
    }
}

/// The storage-independent reference: the command DAG as read back from the replicas
/// (ids, parents, priorities) plus the operations recorded at publish time.
#[derive(Default)]
struct Reference {
    parents: BTreeMap<Id, Vec<Id>>,
    prio: BTreeMap<Id, (u8, u32)>,
    ops: BTreeMap<Id, Op>,
    memo: HashMap<Id, Rc<Facts>>,
}

enum RefErr {
    /// harness problem: a stored non-merge command whose operation was never recorded
    UnknownOp(Id),
    UnknownNode(Id),
}

impl Reference {
    fn learn(&mut self, snap: &Snap) -> Result<(), String> {
        for (id, (_, _, ps)) in &snap.cmds {
            match self.parents.get(id) {
                Some(old) if old != ps => return Err(format!("command {} has two different parent lists", hex(&id[..4]))),
                Some(_) => {}
                None => {
                    self.parents.insert(*id, ps.clone());
                }
            }
            if let Some(p) = snap.prios.get(id) {
                match self.prio.get(id) {
                    Some(old) if old != p => return Err(format!("command {} has two different priorities", hex(&id[..4]))),
                    _ => {
                        self.prio.insert(*id, *p);
                    }
                }
            }
        }
        Ok(())
    }

    /// Priority by the policy text: Merge < Basic(n) < Finalize < Init.
    fn declared(&self, v: &Id) -> Option<(u8, u32)> {
        match self.parents.get(v)?.len() {
            0 => Some((3, 0)),
            2 => Some((0, 0)),
            _ => match self.ops.get(v)? {
                Op::Admin => Some((1, 100)),
                op => op.declared_priority(),
            },
        }
    }

    fn ancestors(&self, heads: &[Id]) -> Result<BTreeSet<Id>, RefErr> {
        let mut seen = BTreeSet::new();
        let mut stack: Vec<Id> = heads.to_vec();
        while let Some(v) = stack.pop() {
            if !seen.insert(v) {
                continue;
            }
            for p in self.parents.get(&v).ok_or(RefErr::UnknownNode(v))? {
                stack.push(*p);
            }
        }
        Ok(seen)
    }

    /// (base, commands applied on top of base in order)
    fn braid(&self, heads: &[Id]) -> Result<(Id, Vec<Id>), RefErr> {
        if heads.len() == 1 {
            return Ok((heads[0], vec![]));
        }
        let region = self.ancestors(heads)?;
        let mut pending: BTreeMap<Id, usize> = region.iter().map(|v| (*v, 0)).collect();
        for v in &region {
            for p in &self.parents[v] {
                *pending.get_mut(p).unwrap() += 1;
            }
        }
        let key = |v: &Id| (self.declared(v).unwrap_or((1, 0)), *v);
        let mut avail: BTreeSet<((u8, u32), Id)> = pending.iter().filter(|(_, n)| **n == 0).map(|(v, _)| key(v)).collect();
        let mut pops = vec![];
        loop {
            if avail.len() == 1 {
                let base = avail.iter().next().unwrap().1;
                let applied = pops.iter().rev().copied().filter(|v: &Id| self.parents[v].len() < 2).collect();
                return Ok((base, applied));
            }
            let first = *avail.iter().next().expect("braid frontier cannot be empty");
            avail.remove(&first);
            pops.push(first.1);
            for p in &self.parents[&first.1] {
                let e = pending.get_mut(p).unwrap();
                *e -= 1;
                if *e == 0 {
                    avail.insert(key(p));
                }
            }
        }
    }

    /// Facts stored at command `v`.
    fn state(&mut self, v: Id) -> Result<Rc<Facts>, RefErr> {
        if let Some(s) = self.memo.get(&v) {
            return Ok(s.clone());
        }
        // iterative descent along single parents, recursion only at merges
        let mut chain = vec![];
        let mut cur = v;
        let mut facts: Facts = loop {
            if let Some(s) = self.memo.get(&cur) {
                break (**s).clone();
            }
            let ps = self.parents.get(&cur).ok_or(RefErr::UnknownNode(cur))?.clone();
            match ps[..] {
                [] => {
                    chain.push(cur);
                    break Facts::default();
                }
                [p] => {
                    chain.push(cur);
                    cur = p;
                }
                [a, b] => {
                    let s = self.committed(&[a, b])?;
                    self.memo.insert(cur, s.clone());
                    break (*s).clone();
                }
                _ => unreachable!(),
            }
        };
        for c in chain.into_iter().rev() {
            let op = if self.parents[&c].is_empty() { Op::Admin } else { self.ops.get(&c).cloned().ok_or(RefErr::UnknownOp(c))? };
            facts.apply(&op);
            self.memo.insert(c, Rc::new(facts.clone()));
        }
        Ok(self.memo[&v].clone())
    }

    fn committed(&mut self, heads: &[Id]) -> Result<Rc<Facts>, RefErr> {
        if heads.len() == 1 {
            return self.state(heads[0]);
        }
        let (base, applied) = self.braid(heads)?;
        let mut f = (*self.state(base)?).clone();
        for c in &applied {
            let op = self.ops.get(c).cloned().ok_or(RefErr::UnknownOp(*c))?;
            f.apply(&op);
        }
        Ok(Rc::new(f))
    }
}

// ---------------------------------------------------------------------------------- decoding

fn dec_key(bytes: &[u8]) -> Option<(String, Value)> {
    let len = u64::from_be_bytes(bytes.get(..8)?.try_into().ok()?) as usize;
    let name = std::str::from_utf8(bytes.get(8..8 + len)?).ok()?.to_string();
    let rest = bytes.get(8 + len..)?;
    let (&tag, rest) = rest.split_first()?;
    let v = match tag {
        0 => Value::Int((u64::from_be_bytes(rest.try_into().ok()?) ^ (1u64 << 63)) as i64),
        3 => {
            let b: [u8; 32] = rest.try_into().ok()?;
            Value::Id(b.into())
        }
        _ => return None,
    };
    Some((name, v))
}

fn decode_facts(snap: &Snap) -> Result<Facts, String> {
    let mut f = Facts::default();
    let idx = |n: &str| FACT_NAMES.iter().position(|x| *x == n).unwrap();
    let val = |bytes: &[u8], field: &str| -> Result<Value, String> {
        let vals: Vec<FactValue> = postcard::from_bytes(bytes).map_err(|e| format!("value bytes do not decode: {e}"))?;
        if vals.len() != 1 {
            return Err(format!("stored value has {} fields", vals.len()));
        }
        vals.iter().find(|x| x.identifier.as_str() == field).map(|x| x.value.clone()).ok_or_else(|| format!("value field {field} missing"))
    };
    for (keys, value) in &snap.facts[idx("Counter")] {
        let name = match keys.as_slice() {
            [k] => match dec_key(k) {
                Some((n, Value::Int(i))) if n == "name" => i,
                other => return Err(format!("Counter key undecodable: {other:?}")),
            },
            _ => return Err("Counter with a key of the wrong arity".into()),
        };
        let v = match val(value, "value")? {
            Value::Int(i) => i,
            other => return Err(format!("Counter value of wrong type {other:?}")),
        };
        if f.counters.insert(name, v).is_some() {
            return Err(format!("Counter[{name}] listed twice"));
        }
    }
    for (keys, value) in &snap.facts[idx("Note")] {
        let (a, s) = match keys.as_slice() {
            [a, s] => match (dec_key(a), dec_key(s)) {
                (Some((an, Value::Id(a))), Some((sn, Value::Int(s)))) if an == "author" && sn == "seq" => (*a.as_array(), s),
                other => return Err(format!("Note key undecodable: {other:?}")),
            },
            _ => return Err("Note with a key of the wrong arity".into()),
        };
        let t = match val(value, "text")? {
            Value::String(t) => t.as_str().to_string(),
            other => return Err(format!("Note text of wrong type {other:?}")),
        };
        if f.notes.insert((a, s), t).is_some() {
            return Err("Note listed twice".into());
        }
    }
    Ok(f)
}

// ------------------------------------------------------------------------------------- world

struct Ctx<'a> {
    m: &'a mut Monitor,
    replay: J,
    log: Vec<String>,
    reference: Reference,
}

fn short(id: &Id) -> String {
    hex(&id[..4])
}

impl Ctx<'_> {
    fn violation(&mut self, owner: &str, sig: &str, detail: J) {
        let tail: Vec<&String> = self.log.iter().rev().take(30).rev().collect();
        let sig = if owner == self.m.id { sig.to_string() } else { format!("{owner}:{sig}") };
        self.m.violation(&sig, json!({"replay": self.replay, "detail": detail, "history_tail": tail}));
    }
}

fn int(v: &Value) -> i64 {
    match v {
        Value::Int(i) => *i,
        _ => unreachable!("harness passes ints"),
    }
}

fn text(v: &Value) -> String {
    match v {
        Value::String(t) => t.as_str().to_string(),
        _ => unreachable!("harness passes strings"),
    }
}

/// The operations an action publishes, in publish order.
fn ops_of(name: &str, a: &[Value], author: Id) -> Vec<Op> {
    match name {
        "set_counter" => vec![Op::Set(int(&a[0]), int(&a[1]))],
        "force_counter" => vec![Op::Force(int(&a[0]), int(&a[1]))],
        "seal_counter" => vec![Op::Seal(int(&a[0]), int(&a[1]))],
        "add_counter" => vec![Op::Add(int(&a[0]), int(&a[1]))],
        "del_counter" => vec![Op::Del(int(&a[0]))],
        "zero_counter" => vec![Op::Zero(int(&a[0]))],
        "post_note" => vec![Op::Post(author, int(&a[0]), text(&a[1]))],
        "clear_note" => vec![Op::Clear(author, int(&a[0]))],
        "set_then_add" => vec![Op::Set(int(&a[0]), int(&a[1])), Op::Add(int(&a[0]), int(&a[2])), Op::Post(author, int(&a[3]), text(&a[4]))],
        "add_device" | "init" => vec![Op::Admin],
        other => unreachable!("unknown action {other}"),
    }
}

fn action(ctx: &mut Ctx<'_>, graph: GraphId, dev: &mut Device, name: &str, args: Vec<Value>) -> bool {
    dev.sink.take();
    let ops = ops_of(name, &args, *dev.id.as_array());
    let r = catch(|| dev.cs.action(graph, &mut dev.sink, act(name, args), &mut dev.bufs, MemSpill::new));
    let effects = dev.sink.take();
    match r {
        Ok(Ok(())) => {
            if effects.len() != ops.len() || effects.iter().any(|e| e.recalled) {
                ctx.m.inconclusive(&format!("action {name} returned {} effects for {} published commands", effects.len(), ops.len()));
                return false;
            }
            let ids: Vec<Id> = effects.iter().map(|e| idb(e.command)).collect();
            for (id, op) in ids.iter().zip(ops) {
                ctx.reference.ops.insert(*id, op);
            }
            ctx.log.push(format!("{} {name} ok [{}]", dev.name, ids.iter().map(short).collect::<Vec<_>>().join(",")));
            ctx.m.count("actions_ok", 1);
            ctx.m.count("commands_published", ids.len() as u64);
            true
        }
        Ok(Err(e)) => {
            if !effects.is_empty() {
                ctx.violation("C07", "rejected-action-left-committed-effects", json!({"device": dev.name, "action": name, "effects": effects.len(), "error": e.to_string()}));
            }
            ctx.log.push(format!("{} {name} rejected: {e}", dev.name));
            ctx.m.count("actions_rejected_by_policy", 1);
            false
        }
        Err(p) => {
            ctx.violation("C07", &format!("conv-vm-panic:{}", p.site()), json!({"action": name, "device": dev.name, "panic": p.what}));
            false
        }
    }
}

fn parents_of(c: &OwnedCmd) -> Vec<Id> {
    match c.parent {
        aranya_runtime::Prior::None => vec![],
        aranya_runtime::Prior::Single(a) => vec![idb(a.id)],
        aranya_runtime::Prior::Merge(a, b) => vec![idb(a.id), idb(b.id)],
    }
}

/// Deliver an ancestor-closed random subset (probability `p_num`/10 per command; 10 = all) of
/// what `dst` lacks from `src` in a random topological order, through one transaction.
/// Returns the number of commands delivered, or None after a violation/inconclusive.
fn deliver(ctx: &mut Ctx<'_>, rng: &mut Rng, graph: GraphId, src: &mut Device, dst: &mut Device, p_num: u64) -> Option<usize> {
    let cmds = match fetch(graph, dst, src) {
        Ok(c) => c,
        Err(e) => {
            ctx.m.inconclusive(&format!("sync exchange failed: {e}"));
            return None;
        }
    };
    if cmds.is_empty() {
        return Some(0);
    }
    let have: BTreeSet<Id> = match snapshot(&mut dst.cs, graph) {
        Ok(s) => s.cmds.keys().copied().collect(),
        Err(e) => {
            ctx.m.inconclusive(&format!("snapshot failed: {e}"));
            return None;
        }
    };
    let mut chosen: Vec<OwnedCmd> = vec![];
    let mut known = have.clone();
    for c in &cmds {
        if known.contains(&idb(c.id)) {
            continue;
        }
        if parents_of(c).iter().all(|p| known.contains(p)) && rng.chance(p_num, 10) {
            known.insert(idb(c.id));
            chosen.push(c.clone());
        }
    }
    if chosen.is_empty() {
        return Some(0);
    }
    let mut order: Vec<OwnedCmd> = vec![];
    let mut done = have;
    while !chosen.is_empty() {
        let ready: Vec<usize> = (0..chosen.len()).filter(|i| parents_of(&chosen[*i]).iter().all(|p| done.contains(p))).collect();
        let i = *rng.pick(&ready);
        let c = chosen.remove(i);
        done.insert(idb(c.id));
        order.push(c);
    }
    let n = order.len();
    let batches = rng.urange(1, 3.min(n));
    let mut trx = dst.cs.transaction(graph);
    dst.sink.take();
    let mut start = 0;
    for b in 0..batches {
        let end = if b + 1 == batches || start >= n { n } else { (start + rng.urange(1, n - start)).min(n) };
        if end > start {
            let r = catch(|| dst.cs.add_commands(&mut trx, &mut dst.sink, &order[start..end], &mut dst.bufs, MemSpill::new));
            match r {
                Ok(Ok(_)) => {}
                Ok(Err(e)) => {
                    let detail = json!({"from": src.name, "to": dst.name, "error": e.to_string(), "batch": order[start..end].iter().map(OwnedCmd::json).collect::<Vec<_>>()});
                    ctx.violation("C01", "honest-commands-rejected-on-delivery", detail);
                    return None;
                }
                Err(p) => {
                    ctx.violation("C01", &format!("conv-vm-panic:{}", p.site()), json!({"from": src.name, "to": dst.name, "panic": p.what}));
                    return None;
                }
            }
        }
        start = end;
    }
    match catch(|| dst.cs.commit(trx, &mut dst.sink, &mut dst.bufs, MemSpill::new)) {
        Ok(Ok(_)) => {}
        Ok(Err(e)) => {
            ctx.violation("C01", "commit-of-honest-commands-failed", json!({"from": src.name, "to": dst.name, "error": e.to_string()}));
            return None;
        }
        Err(p) => {
            ctx.violation("C01", &format!("conv-vm-panic:{}", p.site()), json!({"from": src.name, "to": dst.name, "panic": p.what}));
            return None;
        }
    }
    // every delivered non-merge command reports through the sink exactly once, recalled or not
    let effs = dst.sink.take();
    let delivered: BTreeSet<Id> = order.iter().map(|c| idb(c.id)).collect();
    for e in &effs {
        if !delivered.contains(&idb(e.command)) && !ctx.reference.ops.contains_key(&idb(e.command)) {
            ctx.violation("C03", "effect-attributed-to-an-unknown-command", json!({"to": dst.name, "command": e.command.to_string()}));
            return None;
        }
    }
    ctx.log.push(format!("{} <- {}: {} of {} [{}]", dst.name, src.name, n, cmds.len(), order.iter().map(|c| short(&idb(c.id))).collect::<Vec<_>>().join(",")));
    ctx.m.count("commands_delivered", n as u64);
    if n < cmds.len() {
        ctx.m.count("partial_deliveries", 1);
    }
    Some(n)
}

/// Compare one replica with the reference. Returns its snapshot.
fn check_replica(ctx: &mut Ctx<'_>, graph: GraphId, dev: &mut Device, when: &str) -> Option<Snap> {
    let snap = match snapshot(&mut dev.cs, graph) {
        Ok(s) if s.exists => s,
        Ok(_) => {
            ctx.m.inconclusive("a replica that should hold the graph has no storage");
            return None;
        }
        Err(e) => {
            ctx.m.inconclusive(&format!("snapshot failed: {e}"));
            return None;
        }
    };
    if let Err(e) = ctx.reference.learn(&snap) {
        ctx.violation("C01", "one-command-id-stored-with-different-parents-or-priority", json!({"device": dev.name, "problem": e}));
        return None;
    }
    for (id, stored) in &snap.prios {
        if let Some(want) = ctx.reference.declared(id) {
            if want != *stored {
                ctx.violation("C03", "stored-priority-differs-from-the-policy-attribute", json!({"device": dev.name, "command": hex(id), "stored": stored, "declared": want}));
                return None;
            }
        }
    }
    ctx.m.eval();
    let got = match decode_facts(&snap) {
        Ok(f) => f,
        Err(e) => {
            ctx.violation("C03", "vm-fact-dump-undecodable", json!({"device": dev.name, "when": when, "problem": e}));
            return None;
        }
    };
    let heads: Vec<Id> = snap.heads.iter().copied().collect();
    let want = match ctx.reference.committed(&heads) {
        Ok(w) => w,
        Err(RefErr::UnknownOp(c)) => {
            ctx.m.inconclusive(&format!("stored command {} was never recorded at publish time", short(&c)));
            return None;
        }
        Err(RefErr::UnknownNode(c)) => {
            ctx.violation("C09", "stored-command-names-a-parent-that-is-not-stored", json!({"device": dev.name, "command": hex(&c)}));
            return None;
        }
    };
    let merges = snap.cmds.values().filter(|c| c.2.len() == 2).count() as u64;
    ctx.m.max("max_heads", heads.len() as u64);
    ctx.m.max("max_commands", snap.cmds.len() as u64);
    ctx.m.max("max_merges_in_a_graph", merges);
    if heads.len() > 1 {
        ctx.m.count("multi_head_states_checked", 1);
        if let Ok((base, applied)) = ctx.reference.braid(&heads) {
            if ctx.reference.declared(&base) == Some((2, 0)) {
                // a finalize command is never re-applied: everything concurrent is braided on top of it
                ctx.m.count("braids_based_on_a_finalize_command", 1);
            }
            ctx.m.max("max_braid_length", applied.len() as u64);
            let tie = applied.windows(2).any(|w| ctx.reference.prio.get(&w[0]) == ctx.reference.prio.get(&w[1]));
            if tie {
                ctx.m.count("braids_with_priority_ties", 1);
            }
            let counter_prios: BTreeSet<(u8, u32)> = applied.iter().filter(|c| matches!(ctx.reference.ops.get(*c), Some(Op::Set(..) | Op::Add(..) | Op::Del(..) | Op::Zero(..) | Op::Force(..) | Op::Seal(..)))).filter_map(|c| ctx.reference.declared(c)).collect();
            if counter_prios.len() > 1 {
                ctx.m.count("braids_mixing_counter_priorities", 1);
            }
            if counter_prios.contains(&(2, 0)) {
                ctx.m.count("braids_reapplying_a_finalize_command", 1);
            }
        }
    } else {
        ctx.m.count("single_head_states_checked", 1);
        if snap.cmds.get(&heads[0]).is_some_and(|c| c.2.len() == 2) {
            ctx.m.count("merge_head_states_checked", 1);
        }
    }
    ctx.m.nontrivial(hash_of(&(&snap.heads, &snap.facts)));
    if got != *want {
        let sig = if heads.len() > 1 { "vm-multi-head-facts-differ-from-policy-reference" } else { "vm-facts-differ-from-policy-reference" };
        ctx.violation(
            "C03",
            sig,
            json!({"device": dev.name, "when": when, "heads": heads.iter().map(|h| hex(h)).collect::<Vec<_>>(), "observed": got.json(), "expected": want.json(), "commands": snap.cmds.len()}),
        );
        return None;
    }
    ctx.m.count("fact_dumps_equal_to_reference", 1);
    Some(snap)
}

fn pair_mut(devs: &mut [Device], s: usize, d: usize) -> (&mut Device, &mut Device) {
    if s < d {
        let (a, b) = devs.split_at_mut(d);
        (&mut a[s], &mut b[0])
    } else {
        let (a, b) = devs.split_at_mut(s);
        (&mut b[0], &mut a[d])
    }
}

/// Sync everybody with everybody until nothing moves, then compare all replicas and a late
/// joiner.
fn quiesce_and_compare(ctx: &mut Ctx<'_>, rng: &mut Rng, graph: GraphId, devs: &mut [Device], machine: &Machine, det: &DetRng) -> bool {
    let n = devs.len();
    for pass in 0.. {
        if pass > 40 {
            ctx.violation("C16", "vm-replicas-do-not-reach-a-fixed-point-in-40-passes", json!({}));
            return false;
        }
        let mut moved = 0;
        let mut pairs: Vec<(usize, usize)> = (0..n).flat_map(|s| (0..n).filter(move |d| *d != s).map(move |d| (s, d))).collect();
        rng.shuffle(&mut pairs);
        for (s, d) in pairs {
            let (src, dst) = pair_mut(devs, s, d);
            match deliver(ctx, rng, graph, src, dst, 10) {
                Some(k) => moved += k,
                None => return false,
            }
        }
        if moved == 0 {
            break;
        }
    }
    // late joiner: whole graph from one peer, session after session
    let (mut late, _) = make_device("L", machine, det);
    let from = rng.urange(0, n - 1);
    for round in 0.. {
        if round > 200 {
            ctx.violation("C16", "late-joiner-never-completes", json!({}));
            return false;
        }
        match deliver(ctx, rng, graph, &mut devs[from], &mut late, 10) {
            Some(0) => break,
            Some(_) => {}
            None => return false,
        }
    }
    let mut snaps = vec![];
    let mut hellos = vec![];
    for d in devs.iter_mut().chain(std::iter::once(&mut late)) {
        match check_replica(ctx, graph, d, "at quiescence") {
            Some(s) => snaps.push((d.name, s)),
            None => return false,
        }
        match catch(|| d.cs.hello_head(graph)) {
            Ok(Ok(h)) => hellos.push(h),
            Ok(Err(e)) => {
                ctx.violation("C01", "hello-head-failed-at-quiescence", json!({"device": d.name, "error": e.to_string()}));
                return false;
            }
            Err(p) => {
                ctx.violation("C01", &format!("conv-vm-panic:{}", p.site()), json!({"device": d.name, "panic": p.what}));
                return false;
            }
        }
    }
    let nonmerge = |s: &Snap| -> BTreeSet<Id> { s.cmds.iter().filter(|(_, c)| c.2.len() < 2).map(|(i, _)| *i).collect() };
    let (n0, s0) = (&snaps[0].0, &snaps[0].1);
    for (i, (name, s)) in snaps.iter().enumerate().skip(1) {
        ctx.m.eval();
        ctx.m.count("quiescent_pairs_compared", 1);
        if nonmerge(s) != nonmerge(s0) {
            ctx.violation("C16", "vm-replicas-hold-different-commands-after-sync-to-fixed-point", json!({"a": n0, "b": name, "a_commands": s0.cmds.len(), "b_commands": s.cmds.len()}));
            return false;
        }
        let same = s.heads == s0.heads && s.facts == s0.facts && hellos[i] == hellos[0] && s.cmds == s0.cmds;
        if !same {
            let what = if s.heads != s0.heads {
                "head-sets"
            } else if s.facts != s0.facts {
                "fact-dumps"
            } else if hellos[i] != hellos[0] {
                "hello-heads"
            } else {
                "stored-command-sets"
            };
            ctx.violation(
                "C01",
                &format!("vm-replicas-with-the-same-commands-differ-in-{what}"),
                json!({"a": n0, "b": name,
                    "a_heads": s0.heads.iter().map(|h| hex(h)).collect::<Vec<_>>(), "b_heads": s.heads.iter().map(|h| hex(h)).collect::<Vec<_>>(),
                    "a_facts": decode_facts(s0).map(|f| f.json()).unwrap_or_default(), "b_facts": decode_facts(s).map(|f| f.json()).unwrap_or_default()}),
            );
            return false;
        }
    }
    ctx.m.count("quiescent_points", 1);
    ctx.m.count("late_joiners_compared", 1);
    true
}

fn run_world(m: &mut Monitor, machine: &Machine, world_seed: u64, rounds: u64) {
    let mut rng = Rng::new(world_seed);
    let det = DetRng::new(rng.fork(7));
    let n = rng.urange(3, 5);
    let mut devs: Vec<Device> = vec![];
    let mut keys: Vec<DeviceKeys> = vec![];
    for name in NAMES.iter().take(n) {
        let (d, k) = make_device(name, machine, &det);
        devs.push(d);
        keys.push(k);
    }
    let mut ctx = Ctx { m, replay: json!({"world_seed": world_seed.to_string(), "rounds": rounds}), log: vec![], reference: Reference::default() };
    devs[0].sink.take();
    let init = act("init", vec![keys[0].public_keys.clone(), Value::Int(world_seed as i64 & 0xffff)]);
    let d0 = &mut devs[0];
    let graph = match d0.cs.new_graph(&[0u8], init, &mut d0.sink) {
        Ok(g) => g,
        Err(e) => {
            ctx.m.inconclusive(&format!("new_graph failed: {e}"));
            return;
        }
    };
    for k in keys.iter().skip(1) {
        if !action(&mut ctx, graph, &mut devs[0], "add_device", vec![k.public_keys.clone()]) {
            ctx.m.inconclusive("add_device failed");
            return;
        }
    }
    for i in 1..n {
        let (a, b) = devs.split_at_mut(i);
        if deliver(&mut ctx, &mut rng, graph, &mut a[0], &mut b[0], 10).is_none() {
            return;
        }
    }
    ctx.m.count("worlds", 1);
    ctx.m.seen("devices_per_world", &n.to_string());
    // how bursty devices are in this world: long private chains make deep common ancestors
    let burst = *rng.pick(&[1usize, 2, 2, 4, 8]);
    for round in 0..rounds {
        let mode = rng.weighted(&[55, 20, 25]);
        ctx.log.push(format!("-- round {round} mode {mode}"));
        for d in devs.iter_mut() {
            if rng.chance(6, 10) {
                for _ in 0..rng.urange(1, burst) {
                    let (name, args) = random_action_ext(&mut rng, d.name == "D0");
                    action(&mut ctx, graph, d, name, args);
                }
            }
        }
        for d in devs.iter_mut() {
            if check_replica(&mut ctx, graph, d, "after actions").is_none() {
                return;
            }
        }
        if mode != 2 {
            let passes = if mode == 1 { 2 } else { 1 };
            for _ in 0..passes {
                let mut pairs: Vec<(usize, usize)> = (0..n).flat_map(|s| (0..n).filter(move |d| *d != s).map(move |d| (s, d))).collect();
                rng.shuffle(&mut pairs);
                for (s, d) in pairs {
                    if mode == 0 && !rng.chance(1, 2) {
                        continue;
                    }
                    let p = if mode == 1 { 10 } else { *rng.pick(&[3u64, 5, 7, 10]) };
                    let (src, dst) = pair_mut(&mut devs, s, d);
                    if deliver(&mut ctx, &mut rng, graph, src, dst, p).is_none() {
                        return;
                    }
                }
            }
            for d in devs.iter_mut() {
                if check_replica(&mut ctx, graph, d, "after deliveries").is_none() {
                    return;
                }
            }
        }
        if (round + 1) % 5 == 0 || round + 1 == rounds {
            if !quiesce_and_compare(&mut ctx, &mut rng, graph, &mut devs, machine, &det) {
                return;
            }
        }
        if ctx.m.violations.len() >= ctx.m.max_violations {
            return;
        }
    }
    ctx.m.sample(|| json!({"world_seed": world_seed.to_string(), "devices": n, "rounds": rounds, "burst": burst, "commands": ctx.reference.parents.len(), "history_tail": ctx.log.iter().rev().take(8).collect::<Vec<_>>()}));
}

fn main() {
    let args = Args::parse();
    let prop = args.props.first().cloned().unwrap_or_else(|| "C03".into());
    let mut m = Monitor::new(
        &prop,
        "worlds of 3-5 real VmPolicy replicas (DefaultEngine, keystores, signing policy; counter commands of priority 50/70/finalize write the same facts, most share one priority so command ids decide) on one graph: concurrent actions in bursts of 1-8, ancestor-closed random subsets of the peers' wire commands (from real sync responses) delivered in random topological orders through transaction/add_commands/commit, heads collapsed by later actions. After the actions and after the deliveries of every round each replica's decoded Counter/Note dump must equal the reference state of its head set (DAG, priorities read back; braid by (priority, id); operations recorded at the action call; recall = no-op). Every 5 rounds all replicas sync to a fixed point and, together with a late joiner fed in whole sessions, must agree on heads, stored commands, byte-equal fact dumps and hello heads. non-trivial = distinct (head set, fact dump)",
    )
    .min(300)
    .require("multi_head_states_checked", "multi-head commits must be compared with the reference")
    .require("merge_head_states_checked", "replicas whose single head is a merge must be compared")
    .require("braids_with_priority_ties", "braids must contain equal-priority neighbours")
    .require("braids_mixing_counter_priorities", "braids must order counter commands of different priorities")
    .require("braids_based_on_a_finalize_command", "commands concurrent with a finalize command must be braided on top of it")
    .require("partial_deliveries", "partial deliveries must occur")
    .require("quiescent_points", "replicas must be compared at quiescence")
    .require("late_joiners_compared", "a late joiner must be compared")
    .assume("the policy's semantics as modelled in Facts::apply (saturating add, recall on a missing fact = no-op)")
    .assume("merge commands carry nothing; only non-merge commands define 'the same set of commands'");

    let machine = compile_machine();

    if let Some(r) = args.replay_case() {
        let c = &r["case"]["replay"];
        let ws: u64 = c["world_seed"].as_str().and_then(|s| s.parse().ok()).expect("world_seed");
        run_world(&mut m, &machine, ws, c["rounds"].as_u64().unwrap_or(15));
        finish_all(&args, vec![m]);
    }

    let threads = cores();
    let worlds_per_shard = args.n(5, 70);
    let rounds = args.n(15, 30);
    let base = Rng::new(args.seed).fork(31);
    let results = par_shards(threads, |i, _| {
        let mut w = m.worker();
        for k in 0..worlds_per_shard {
            let ws = base.fork((i as u64) << 32 | k).u64();
            run_world(&mut w, &machine, ws, rounds);
            if w.violations.len() >= w.max_violations {
                break;
            }
        }
        w
    });
    m.max_violations = 24;
    absorb_all(&mut m, results, 2);
    finish_all(&args, vec![m]);
}
