//! C29: fact queries in policies match a fact-store model.
//!
//! Generated fact schemas + generated policy text are compiled with the real compiler and run
//! end to end on `ClientState` + `VmPolicy` + linear storage (memory, and libc files in a scratch
//! dir). Every action publishes at least one command, so facts are spread over many segments /
//! fact indices. A typed ordered model store is the oracle for every probe and for the fact dump
//! read back through `Storage::fact_cache` + `Query::query_prefix` after every mutation.
use std::{borrow::Cow, collections::BTreeMap, fmt::Write as _};

use aranya_crypto::{BaseId, DeviceId, Rng as CRng, default::DefaultEngine};
use aranya_policy_compiler::Compiler;
use aranya_policy_lang::lang::parse_policy_str;
use aranya_policy_vm::{
    FactValue, Machine, Value,
    ast::{Identifier, Text, Version},
    ffi::FfiModule as _,
};
use aranya_runtime::{
    ClientState, GraphId, MemSpill, Query as _, RuntimeBuffers, Storage as _, StorageProvider,
    VmAction, VmEffect, VmPolicy,
    linear::{LinearStorageProvider, libc::FileManager, testing::MemStorageProvider},
    vm_policy::testing::TestFfiEnvelope,
};
use mon_e2e::{OneStore, RecSink, absorb_all};
use vcore::*;

type CE = DefaultEngine<CRng>;

// ---------------------------------------------------------------------------
// Typed values and the model store
// ---------------------------------------------------------------------------

#[derive(Clone, Copy, PartialEq, Eq, Debug, Hash)]
enum Ty {
    Int,
    Bool,
    Str,
    Id,
    Enum,
}

impl Ty {
    fn text(self) -> &'static str {
        match self {
            Ty::Int => "int",
            Ty::Bool => "bool",
            Ty::Str => "string",
            Ty::Id => "id",
            Ty::Enum => "enum Color",
        }
    }
    fn ch(self) -> char {
        match self {
            Ty::Int => 'i',
            Ty::Bool => 'b',
            Ty::Str => 's',
            Ty::Id => 'd',
            Ty::Enum => 'e',
        }
    }
}

/// A typed value. Within one field all values have the same variant, so the derived order is
/// the model's key order: ints numerically (negatives first), `false < true`, strings bytewise
/// (a proper prefix sorts first), ids bytewise, enums by variant value.
#[derive(Clone, PartialEq, Eq, PartialOrd, Ord, Debug, Hash)]
enum V {
    Int(i64),
    Bool(bool),
    Str(String),
    Id([u8; 32]),
    Enum(i64),
}

impl V {
    fn to_value(&self) -> Value {
        match self {
            V::Int(i) => Value::Int(*i),
            V::Bool(b) => Value::Bool(*b),
            V::Str(s) => Value::String(s.parse::<Text>().expect("text")),
            V::Id(b) => Value::Id(BaseId::from_bytes(*b)),
            V::Enum(i) => Value::Enum("Color".parse::<Identifier>().unwrap(), *i),
        }
    }
    fn from_value(v: &Value) -> Option<V> {
        Some(match v {
            Value::Int(i) => V::Int(*i),
            Value::Bool(b) => V::Bool(*b),
            Value::String(t) => V::Str(t.as_str().to_string()),
            Value::Id(id) => V::Id(*id.as_array()),
            Value::Enum(name, i) if name.as_str() == "Color" => V::Enum(*i),
            _ => return None,
        })
    }
    fn json(&self) -> Value_ {
        match self {
            V::Int(i) => json!({"int": i.to_string()}),
            V::Bool(b) => json!({"bool": b}),
            V::Str(s) => json!({"str": s, "hex": hex(s.as_bytes())}),
            V::Id(b) => json!({"id": hex(b)}),
            V::Enum(i) => json!({"enum": i}),
        }
    }
}
type Value_ = vcore::Value;

fn vs_json(vs: &[V]) -> Value_ {
    Value_::Array(vs.iter().map(V::json).collect())
}

#[derive(Clone, Debug)]
struct FactSchema {
    name: String,
    keys: Vec<(String, Ty)>,
    vals: Vec<(String, Ty)>,
}

type ModelFact = BTreeMap<Vec<V>, Vec<V>>;

/// Model fact store: per fact name an ordered map from the typed key tuple to the value tuple.
#[derive(Clone, Default, PartialEq, Eq, Debug)]
struct Model {
    facts: Vec<ModelFact>,
}

impl Model {
    /// Facts whose leading keys equal `prefix`, in key order, filtered by the bound value fields.
    fn select<'a>(
        &'a self,
        fact: usize,
        prefix: &'a [V],
        vfilter: &'a [Option<V>],
    ) -> impl Iterator<Item = (&'a Vec<V>, &'a Vec<V>)> + 'a {
        self.facts[fact].iter().filter(move |(k, v)| {
            k[..prefix.len()] == *prefix
                && vfilter
                    .iter()
                    .enumerate()
                    .all(|(j, f)| f.as_ref().is_none_or(|f| v[j] == *f))
        })
    }
}

// ---------------------------------------------------------------------------
// Independent implementation of the documented key encoding
// (u64-BE identifier length, identifier, type tag, order-preserving value bytes)
// ---------------------------------------------------------------------------

fn enc_key(name: &str, v: &V) -> Vec<u8> {
    let mut out = Vec::new();
    out.extend_from_slice(&(name.len() as u64).to_be_bytes());
    out.extend_from_slice(name.as_bytes());
    match v {
        V::Int(i) => {
            out.push(0);
            out.extend_from_slice(&((*i as u64) ^ (1u64 << 63)).to_be_bytes());
        }
        V::Bool(b) => {
            out.push(1);
            out.push(*b as u8);
        }
        V::Str(s) => {
            out.push(2);
            out.extend_from_slice(s.as_bytes());
        }
        V::Id(b) => {
            out.push(3);
            out.extend_from_slice(b);
        }
        V::Enum(i) => {
            out.push(4);
            out.extend_from_slice(&((*i as u64) ^ (1u64 << 63)).to_be_bytes());
            out.extend_from_slice(b"Color");
        }
    }
    out
}

fn dec_key(bytes: &[u8]) -> Option<(String, V)> {
    let len = u64::from_be_bytes(bytes.get(..8)?.try_into().ok()?) as usize;
    let name = std::str::from_utf8(bytes.get(8..8 + len)?).ok()?.to_string();
    let rest = bytes.get(8 + len..)?;
    let (&tag, rest) = rest.split_first()?;
    let v = match tag {
        0 => V::Int((u64::from_be_bytes(rest.try_into().ok()?) ^ (1u64 << 63)) as i64),
        1 => match rest {
            [0] => V::Bool(false),
            [1] => V::Bool(true),
            _ => return None,
        },
        2 => V::Str(std::str::from_utf8(rest).ok()?.to_string()),
        3 => V::Id(rest.try_into().ok()?),
        4 => {
            let (n, name) = rest.split_first_chunk::<8>()?;
            if name != b"Color" {
                return None;
            }
            V::Enum((u64::from_be_bytes(*n) ^ (1u64 << 63)) as i64)
        }
        _ => return None,
    };
    Some((name, v))
}

// ---------------------------------------------------------------------------
// Schema, pools and policy text generation
// ---------------------------------------------------------------------------

/// A probe shape: which leading keys are bound and which value fields are literals.
#[derive(Clone, Debug)]
struct Shape {
    fact: usize,
    /// Number of leading key fields that are bound (the rest are `?`).
    p: usize,
    /// `None`: no `=>{..}` block at all; `Some(mask)`: `mask[j]` = literal, else `?`.
    vmask: Option<Vec<bool>>,
    /// Limits for count_up_to / at_least / at_most / exactly.
    limits: [i64; 4],
}

struct Gen {
    facts: Vec<FactSchema>,
    enum_variants: usize,
    /// Value pools per fact: per key field, per value field.
    kpool: Vec<Vec<Vec<V>>>,
    vpool: Vec<Vec<Vec<V>>>,
    shapes: Vec<Shape>,
    text: String,
}

const INTS: &[i64] = &[
    i64::MIN,
    i64::MIN + 1,
    -(1 << 32),
    -65536,
    -256,
    -255,
    -2,
    -1,
    0,
    1,
    2,
    127,
    128,
    255,
    256,
    65535,
    1 << 32,
    i64::MAX - 1,
    i64::MAX,
];

const STRS: &[&str] = &[
    "", "a", "aa", "aaa", "ab", "a b", "b", "B", "ba", "\u{1}", "\u{7f}", "é", "e", "z", "zz", "\u{10ffff}", "\u{800}",
    "a\u{1}", "0", "00", "~",
];

fn gen_id(rng: &mut Rng, base: &[u8; 32]) -> [u8; 32] {
    let mut b = *base;
    match rng.below(6) {
        0 => b[31] ^= 1 << rng.below(8),
        1 => b[31] = b[31].wrapping_add(1),
        2 => b[0] ^= 0x80,
        3 => b = [0; 32],
        4 => b = [0xff; 32],
        _ => b[rng.usize(32)] = rng.u64() as u8,
    }
    b
}

fn gen_pool(rng: &mut Rng, ty: Ty, want: usize, enum_variants: usize) -> Vec<V> {
    let mut out: Vec<V> = Vec::new();
    let mut base = [0u8; 32];
    rng.fill(&mut base);
    let mut guard = 0;
    while out.len() < want && guard < 200 {
        guard += 1;
        let v = match ty {
            Ty::Int => {
                if rng.chance(4, 5) {
                    V::Int(*rng.pick(INTS))
                } else {
                    V::Int(rng.u64() as i64 >> rng.below(64))
                }
            }
            Ty::Bool => V::Bool(rng.bool()),
            Ty::Str => {
                if rng.chance(4, 5) {
                    V::Str((*rng.pick(STRS)).to_string())
                } else {
                    // extension of an earlier pool member => proper-prefix pairs
                    let mut s = match out.last() {
                        Some(V::Str(s)) => s.clone(),
                        _ => String::new(),
                    };
                    for _ in 0..rng.urange(1, 3) {
                        s.push(*rng.pick(&['a', 'b', '\u{1}', 'é', ' ', 'Z']));
                    }
                    V::Str(s)
                }
            }
            Ty::Id => {
                if out.is_empty() {
                    V::Id(base)
                } else {
                    V::Id(gen_id(rng, &base))
                }
            }
            Ty::Enum => V::Enum(rng.below(enum_variants as u64) as i64),
        };
        if !out.contains(&v) {
            out.push(v);
        }
    }
    out
}

/// A value that is (most likely) not in the pool.
fn fresh(rng: &mut Rng, ty: Ty, enum_variants: usize) -> V {
    match ty {
        Ty::Int => V::Int(rng.u64() as i64),
        Ty::Bool => V::Bool(rng.bool()),
        Ty::Str => V::Str(format!("q{}", rng.below(1000))),
        Ty::Id => {
            let mut b = [0u8; 32];
            rng.fill(&mut b);
            V::Id(b)
        }
        Ty::Enum => V::Enum(rng.below(enum_variants as u64) as i64),
    }
}

const VARIANTS: &[&str] = &["Red", "Green", "Blue", "Cyan", "Pink"];

fn fields_decl(fs: &[(String, Ty)]) -> String {
    fs.iter().map(|(n, t)| format!("{n} {}", t.text())).collect::<Vec<_>>().join(", ")
}

fn command(out: &mut String, name: &str, fields: &[(String, Ty)], body: &str) {
    let _ = write!(
        out,
        "command {name} {{\n    attributes {{ priority: 0 }}\n    fields {{ {} }}\n    seal {{ return envelope::do_seal(payload) }}\n    open {{ return envelope::do_open(payload, envelope) }}\n    policy {{\n{body}\n    }}\n}}\n",
        fields_decl(fields)
    );
}

/// `name: <src>name` list for a struct literal.
fn assign(fs: &[(String, Ty)], src: &str) -> String {
    fs.iter().map(|(n, _)| format!("{n}: {src}{n}")).collect::<Vec<_>>().join(", ")
}

impl Gen {
    fn new(rng: &mut Rng) -> Gen {
        let enum_variants = rng.urange(2, VARIANTS.len());
        let nfacts = rng.urange(1, 2);
        let tys = [Ty::Int, Ty::Bool, Ty::Str, Ty::Id, Ty::Enum];
        let mut facts = vec![];
        let mut kpool = vec![];
        let mut vpool = vec![];
        for fi in 0..nfacts {
            let nk = rng.urange(1, 3);
            let nv = rng.urange(1, 2);
            let mut keys = vec![];
            let mut kp = vec![];
            for j in 0..nk {
                // Prefer a non-bool leading key so prefixes have several groups.
                let ty = loop {
                    let t = *rng.pick(&tys);
                    if !(j == 0 && nk > 1 && t == Ty::Bool && rng.bool()) {
                        break t;
                    }
                };
                let pad = "_x".repeat(rng.usize(3));
                keys.push((format!("k{j}{}{pad}", ty.ch()), ty));
                let want = if nk == 1 { rng.urange(5, 9) } else if j == 0 { rng.urange(2, 4) } else { rng.urange(2, 5) };
                kp.push(gen_pool(rng, ty, want, enum_variants));
            }
            let mut vals = vec![];
            let mut vp = vec![];
            for j in 0..nv {
                let ty = *rng.pick(&tys);
                vals.push((format!("v{j}{}", ty.ch()), ty));
                let want = rng.urange(2, 3);
                vp.push(gen_pool(rng, ty, want, enum_variants));
            }
            facts.push(FactSchema { name: format!("F{fi}{}", if rng.bool() { "x" } else { "" }), keys, vals });
            kpool.push(kp);
            vpool.push(vp);
        }
        // Probe shapes: every (p, vmask) combination of every fact is a candidate; sample some.
        let mut cands = vec![];
        for (fi, f) in facts.iter().enumerate() {
            for p in 0..=f.keys.len() {
                cands.push((fi, p, None));
                for m in 0..(1u32 << f.vals.len()) {
                    let mask: Vec<bool> = (0..f.vals.len()).map(|j| m >> j & 1 == 1).collect();
                    cands.push((fi, p, Some(mask)));
                }
            }
        }
        rng.shuffle(&mut cands);
        cands.truncate(rng.urange(6, 10).min(cands.len()));
        let shapes: Vec<Shape> = cands
            .into_iter()
            .map(|(fact, p, vmask)| Shape {
                fact,
                p,
                vmask,
                limits: [
                    rng.range(1, 6) as i64,
                    rng.range(1, 5) as i64,
                    rng.range(1, 5) as i64,
                    rng.range(1, 5) as i64,
                ],
            })
            .collect();
        let mut g = Gen { facts, enum_variants, kpool, vpool, shapes, text: String::new() };
        g.text = g.policy_text();
        g
    }

    /// The fields a probe of this shape takes: bound keys then literal value fields.
    fn shape_fields(&self, s: &Shape) -> Vec<(String, Ty)> {
        let f = &self.facts[s.fact];
        let mut out: Vec<(String, Ty)> = f.keys[..s.p].to_vec();
        if let Some(mask) = &s.vmask {
            for (j, b) in mask.iter().enumerate() {
                if *b {
                    out.push(f.vals[j].clone());
                }
            }
        }
        out
    }

    fn literal(&self, s: &Shape, src: &str) -> String {
        let f = &self.facts[s.fact];
        let keys: Vec<String> = f
            .keys
            .iter()
            .enumerate()
            .map(|(j, (n, _))| if j < s.p { format!("{n}: {src}{n}") } else { format!("{n}: ?") })
            .collect();
        let mut t = format!("{}[{}]", f.name, keys.join(", "));
        if let Some(mask) = &s.vmask {
            let vals: Vec<String> = f
                .vals
                .iter()
                .enumerate()
                .map(|(j, (n, _))| if mask[j] { format!("{n}: {src}{n}") } else { format!("{n}: ?") })
                .collect();
            let _ = write!(t, "=>{{{}}}", vals.join(", "));
        }
        t
    }

    fn policy_text(&self) -> String {
        let mut o = String::new();
        o.push_str("use envelope\n\n");
        let _ = writeln!(o, "enum Color {{ {} }}\n", VARIANTS[..self.enum_variants].join(", "));
        let res: Vec<(String, Ty)> = vec![
            ("ex".into(), Ty::Bool),
            ("cu".into(), Ty::Int),
            ("al".into(), Ty::Bool),
            ("am".into(), Ty::Bool),
            ("xa".into(), Ty::Bool),
        ];
        o.push_str("command Init {\n    attributes { init: true }\n    fields { nonce int }\n    seal { return envelope::do_seal(payload) }\n    open { return envelope::do_open(payload, envelope) }\n    policy { finish {} }\n}\naction init(nonce int) { publish Init { nonce: nonce } }\n\n");
        let _ = writeln!(o, "effect NotFound {{ {} }}", fields_decl(&res));
        o.push_str("effect MapEndE { n int }\n");
        command(&mut o, "RN", &res, &format!("        finish {{ emit NotFound {{ {} }} }}", assign(&res, "this.")));
        command(&mut o, "MapEnd", &[("n".into(), Ty::Int)], "        finish { emit MapEndE { n: this.n } }");
        for (fi, f) in self.facts.iter().enumerate() {
            let all: Vec<(String, Ty)> = f.keys.iter().chain(f.vals.iter()).cloned().collect();
            let allres: Vec<(String, Ty)> = all.iter().chain(res.iter()).cloned().collect();
            let _ = writeln!(o, "\nfact {}[{}]=>{{{}}}", f.name, fields_decl(&f.keys), fields_decl(&f.vals));
            let _ = writeln!(o, "effect Found{fi} {{ {} }}", fields_decl(&allres));
            let _ = writeln!(o, "effect SeenE{fi} {{ {} }}", fields_decl(&all));
            let klit = |src: &str| format!("{}[{}]", f.name, assign(&f.keys, src));
            // create
            command(
                &mut o,
                &format!("C{fi}"),
                &all,
                &format!("        finish {{ create {}=>{{{}}} }}", klit("this."), assign(&f.vals, "this.")),
            );
            let _ = writeln!(o, "action c{fi}({}) {{ publish C{fi} {{ {} }} }}", fields_decl(&all), assign(&all, ""));
            // updates
            let olds: Vec<(String, Ty)> = f.vals.iter().map(|(n, t)| (format!("o_{n}"), *t)).collect();
            let news: Vec<(String, Ty)> = f.vals.iter().map(|(n, t)| (format!("n_{n}"), *t)).collect();
            let to: String = f.vals.iter().map(|(n, _)| format!("{n}: this.n_{n}")).collect::<Vec<_>>().join(", ");
            let kon: Vec<(String, Ty)> = f.keys.iter().chain(olds.iter()).chain(news.iter()).cloned().collect();
            let kn: Vec<(String, Ty)> = f.keys.iter().chain(news.iter()).cloned().collect();
            let exact: String = f.vals.iter().map(|(n, _)| format!("{n}: this.o_{n}")).collect::<Vec<_>>().join(", ");
            command(&mut o, &format!("UE{fi}"), &kon, &format!("        finish {{ update {}=>{{{exact}}} to {{{to}}} }}", klit("this.")));
            let _ = writeln!(o, "action ue{fi}({}) {{ publish UE{fi} {{ {} }} }}", fields_decl(&kon), assign(&kon, ""));
            command(&mut o, &format!("UN{fi}"), &kn, &format!("        finish {{ update {} to {{{to}}} }}", klit("this.")));
            let _ = writeln!(o, "action un{fi}({}) {{ publish UN{fi} {{ {} }} }}", fields_decl(&kn), assign(&kn, ""));
            let binds: String = f.vals.iter().map(|(n, _)| format!("{n}: ?")).collect::<Vec<_>>().join(", ");
            command(&mut o, &format!("UB{fi}"), &kn, &format!("        finish {{ update {}=>{{{binds}}} to {{{to}}} }}", klit("this.")));
            let _ = writeln!(o, "action ub{fi}({}) {{ publish UB{fi} {{ {} }} }}", fields_decl(&kn), assign(&kn, ""));
            if f.vals.len() == 2 {
                // first value bound with `?`, second compared
                let partial = format!("{}: ?, {}: this.o_{}", f.vals[0].0, f.vals[1].0, f.vals[1].0);
                let kpn: Vec<(String, Ty)> =
                    f.keys.iter().chain(olds[1..].iter()).chain(news.iter()).cloned().collect();
                command(&mut o, &format!("UP{fi}"), &kpn, &format!("        finish {{ update {}=>{{{partial}}} to {{{to}}} }}", klit("this.")));
                let _ = writeln!(o, "action up{fi}({}) {{ publish UP{fi} {{ {} }} }}", fields_decl(&kpn), assign(&kpn, ""));
            }
            // delete
            command(&mut o, &format!("D{fi}"), &f.keys, &format!("        finish {{ delete {} }}", klit("this.")));
            let _ = writeln!(o, "action d{fi}({}) {{ publish D{fi} {{ {} }} }}", fields_decl(&f.keys), assign(&f.keys, ""));
            // create + delete as two commands of one action (same perspective / segment)
            let dkeys: Vec<(String, Ty)> = f.keys.iter().map(|(n, t)| (format!("d_{n}"), *t)).collect();
            let cd: Vec<(String, Ty)> = all.iter().chain(dkeys.iter()).cloned().collect();
            let dassign: String = f.keys.iter().map(|(n, _)| format!("{n}: d_{n}")).collect::<Vec<_>>().join(", ");
            let _ = writeln!(
                o,
                "action cd{fi}({}) {{ publish C{fi} {{ {} }}\n publish D{fi} {{ {dassign} }} }}",
                fields_decl(&cd),
                assign(&all, "")
            );
            // result carriers for action-context probes and map
            command(&mut o, &format!("RF{fi}"), &allres, &format!("        finish {{ emit Found{fi} {{ {} }} }}", assign(&allres, "this.")));
            command(&mut o, &format!("Seen{fi}"), &all, &format!("        finish {{ emit SeenE{fi} {{ {} }} }}", assign(&all, "this.")));
        }
        for (si, s) in self.shapes.iter().enumerate() {
            let f = &self.facts[s.fact];
            let fi = s.fact;
            let fields = self.shape_fields(s);
            let all: Vec<(String, Ty)> = f.keys.iter().chain(f.vals.iter()).cloned().collect();
            let [n1, n2, n3, n4] = s.limits;
            let probes = |src: &str| {
                let lit = self.literal(s, src);
                format!(
                    "        let q = query {lit}\n        let ex = exists {lit}\n        let cu = count_up_to {n1} {lit}\n        let al = at_least {n2} {lit}\n        let am = at_most {n3} {lit}\n        let xa = exactly {n4} {lit}\n"
                )
            };
            let resassign = "ex: ex, cu: cu, al: al, am: am, xa: xa";
            // command-context probe
            let body = format!(
                "{}        match q {{\n            Some(f) => {{ finish {{ emit Found{fi} {{ {}, {resassign} }} }} }}\n            None => {{ finish {{ emit NotFound {{ {resassign} }} }} }}\n        }}",
                probes("this."),
                assign(&all, "f."),
            );
            command(&mut o, &format!("P{si}"), &fields, &body);
            let _ = writeln!(o, "action pc{si}({}) {{ publish P{si} {{ {} }} }}", fields_decl(&fields), assign(&fields, ""));
            // action-context probe
            let _ = writeln!(
                o,
                "action pa{si}({}) {{\n{}        match q {{\n            Some(f) => {{ publish RF{fi} {{ {}, {resassign} }} }}\n            None => {{ publish RN {{ {resassign} }} }}\n        }}\n}}",
                fields_decl(&fields),
                probes(""),
                assign(&all, "f."),
            );
            // map
            let _ = writeln!(
                o,
                "action pm{si}({}) {{\n        map {} as f {{ publish Seen{fi} {{ {} }} }}\n        publish MapEnd {{ n: {si} }}\n}}",
                fields_decl(&fields),
                self.literal(s, ""),
                assign(&all, "f."),
            );
        }
        o
    }
}

// ---------------------------------------------------------------------------
// Execution
// ---------------------------------------------------------------------------

struct Compiled {
    machine: Machine,
}

fn compile(text: &str) -> Result<Compiled, String> {
    let ast = parse_policy_str(text, Version::V2).map_err(|e| format!("parse: {e}"))?;
    let module = Compiler::new(&ast)
        .ffi_modules(&[TestFfiEnvelope::SCHEMA])
        .debug(true)
        .compile()
        .map_err(|e| format!("compile: {e}"))?;
    let machine = Machine::from_module(module).map_err(|e| format!("machine: {e}"))?;
    Ok(Compiled { machine })
}

fn new_policy(c: &Compiled) -> VmPolicy<CE> {
    let (eng, _) = DefaultEngine::from_entropy(CRng);
    VmPolicy::new(
        c.machine.clone(),
        eng,
        vec![Box::from(TestFfiEnvelope { device: DeviceId::from_bytes([7u8; 32]) })],
    )
    .expect("VmPolicy::new")
}

#[derive(Clone, Copy, PartialEq, Eq, Debug)]
enum UpdKind {
    Exact,
    NoValue,
    AllBind,
    Partial,
}

struct Run<'a, SP: StorageProvider> {
    g: &'a Gen,
    cs: ClientState<OneStore<CE>, SP>,
    graph: GraphId,
    bufs: RuntimeBuffers<SP::Segment>,
    sink: RecSink,
    model: Model,
    m: &'a mut Monitor,
    /// Replay information attached to every violation.
    ctx: Value_,
    ops_done: u64,
    log: Vec<String>,
}

fn act(name: &str, args: Vec<Value>) -> VmAction<'static> {
    VmAction { name: name.parse::<Identifier>().expect("ident"), args: Cow::Owned(args) }
}

fn eff_fields(e: &VmEffect) -> BTreeMap<String, Value> {
    e.fields.iter().map(|kv| (kv.key().as_str().to_string(), kv.value().clone())).collect()
}

impl<SP: StorageProvider> Run<'_, SP> {
    fn violation(&mut self, sig: &str, detail: Value_) {
        let tail: Vec<&String> = self.log.iter().rev().take(12).rev().collect();
        self.m.violation(
            sig,
            json!({"replay": self.ctx, "op_index": self.ops_done, "detail": detail, "policy": self.g.text, "last_ops": tail}),
        );
    }

    /// Run an action; returns the committed effects on success.
    fn action(&mut self, name: &str, args: Vec<Value>) -> Result<Vec<VmEffect>, String> {
        self.sink.take();
        let r = catch(|| {
            self.cs.action(self.graph, &mut self.sink, act(name, args), &mut self.bufs, MemSpill::new)
        });
        match r {
            Err(p) => {
                self.violation(&format!("pol-facts-panic:{}", p.site()), json!({"action": name, "panic": p.what}));
                Err("panic".into())
            }
            Ok(Ok(())) => Ok(self.sink.take()),
            Ok(Err(e)) => {
                if !self.sink.take().is_empty() {
                    self.violation("failed-action-committed-effects", json!({"action": name}));
                }
                Err(e.to_string())
            }
        }
    }

    /// Read all facts back through the runtime and compare with the model.
    fn check_dump(&mut self, why: &str) {
        let storage = self.cs.provider().get_storage(self.graph).expect("storage");
        let fc = storage.fact_cache().expect("fact_cache");
        for (fi, f) in self.g.facts.iter().enumerate() {
            let it = match fc.query_prefix(&f.name, &[]) {
                Ok(it) => it,
                Err(e) => {
                    let e = e.to_string();
                    self.violation("dump-query-prefix-error", json!({"error": e}));
                    return;
                }
            };
            let mut got: Vec<(Vec<V>, Vec<V>, Vec<Vec<u8>>)> = vec![];
            let mut bad = None;
            for r in it {
                let fact = match r {
                    Ok(x) => x,
                    Err(e) => {
                        bad = Some(format!("iterator error {e}"));
                        break;
                    }
                };
                let raw: Vec<Vec<u8>> = fact.key.iter().map(|b| b.to_vec()).collect();
                let mut keys = vec![];
                for (j, kb) in raw.iter().enumerate() {
                    match dec_key(kb) {
                        Some((n, v)) if f.keys.get(j).is_some_and(|(kn, _)| *kn == n) => keys.push(v),
                        other => bad = Some(format!("key {j} undecodable or misnamed: {other:?} {}", hex(kb))),
                    }
                }
                let vals: Result<Vec<FactValue>, _> = postcard::from_bytes(&fact.value);
                let mut vv = vec![];
                match vals {
                    Ok(vals) => {
                        for (n, _) in &f.vals {
                            match vals.iter().find(|x| x.identifier.as_str() == n).and_then(|x| V::from_value(&x.value)) {
                                Some(v) => vv.push(v),
                                None => bad = Some(format!("value field {n} missing/of wrong type in {vals:?}")),
                            }
                        }
                        if vals.len() != f.vals.len() {
                            bad = Some(format!("stored value has {} fields", vals.len()));
                        }
                    }
                    Err(e) => bad = Some(format!("value bytes do not decode: {e}")),
                }
                got.push((keys, vv, raw));
            }
            if let Some(b) = bad {
                self.violation("dump-undecodable", json!({"fact": f.name, "why": why, "problem": b}));
                return;
            }
            let want: Vec<(&Vec<V>, &Vec<V>)> = self.model.facts[fi].iter().collect();
            let same = got.len() == want.len()
                && got.iter().zip(&want).all(|((k, v, _), (wk, wv))| k == *wk && v == *wv);
            if !same {
                let sig = if got.len() == want.len() && {
                    let mut a: Vec<_> = got.iter().map(|(k, v, _)| (k.clone(), v.clone())).collect();
                    a.sort();
                    a.iter().zip(&want).all(|((k, v), (wk, wv))| k == *wk && v == *wv)
                } {
                    "dump-order-differs-from-model-key-order"
                } else {
                    "dump-differs-from-model"
                };
                let gotj: Vec<Value_> = got.iter().map(|(k, v, _)| json!([vs_json(k), vs_json(v)])).collect();
                let wantj: Vec<Value_> = want.iter().map(|(k, v)| json!([vs_json(k), vs_json(v)])).collect();
                self.violation(sig, json!({"fact": f.name, "why": why, "observed": gotj, "expected": wantj}));
                return;
            }
            // The raw key bytes are what the documented encoding says.
            for (k, _, raw) in &got {
                let enc: Vec<Vec<u8>> = k.iter().zip(&f.keys).map(|(v, (n, _))| enc_key(n, v)).collect();
                if enc != *raw {
                    self.violation(
                        "key-bytes-differ-from-documented-encoding",
                        json!({"fact": f.name, "key": vs_json(k), "raw": raw.iter().map(|b| hex(b)).collect::<Vec<_>>()}),
                    );
                    return;
                }
            }
            self.m.count("dump_facts_compared", got.len() as u64);
            self.m.max("max_facts_in_store", got.len() as u64);
        }
        self.m.count("dumps_compared", 1);
    }

    /// Prefix / exact lookups directly on the fact cache.
    fn check_storage_queries(&mut self, rng: &mut Rng) {
        let fi = rng.usize(self.g.facts.len());
        let f = &self.g.facts[fi];
        let p = rng.usize(f.keys.len() + 1);
        let prefix: Vec<V> = (0..p).map(|j| self.pick_key(rng, fi, j)).collect();
        let enc: Vec<Box<[u8]>> = prefix.iter().zip(&f.keys).map(|(v, (n, _))| enc_key(n, v).into_boxed_slice()).collect();
        let storage = self.cs.provider().get_storage(self.graph).expect("storage");
        let fc = storage.fact_cache().expect("fact_cache");
        let got: Vec<Vec<Vec<u8>>> = match fc.query_prefix(&f.name, &enc) {
            Ok(it) => it.filter_map(|r| r.ok()).map(|x| x.key.iter().map(|b| b.to_vec()).collect()).collect(),
            Err(_) => vec![],
        };
        let want: Vec<Vec<Vec<u8>>> = self
            .model
            .select(fi, &prefix, &[])
            .map(|(k, _)| k.iter().zip(&f.keys).map(|(v, (n, _))| enc_key(n, v)).collect())
            .collect();
        self.m.count("storage_prefix_queries", 1);
        if !want.is_empty() {
            self.m.count("storage_prefix_queries_nonempty", 1);
        }
        let exact = if p == f.keys.len() {
            let r = fc.query(&f.name, &enc).ok().flatten().is_some();
            Some(r)
        } else {
            None
        };
        if got != want {
            let (g, w) = (got.len(), want.len());
            self.violation(
                "storage-query-prefix-differs-from-model",
                json!({"fact": f.name, "prefix": vs_json(&prefix), "observed_n": g, "expected_n": w}),
            );
        }
        if let Some(found) = exact {
            if found != !want.is_empty() {
                self.violation("storage-query-exact-differs-from-model", json!({"fact": f.name, "keys": vs_json(&prefix)}));
            }
        }
    }

    fn pick_key(&self, rng: &mut Rng, fi: usize, j: usize) -> V {
        if rng.chance(1, 12) {
            fresh(rng, self.g.facts[fi].keys[j].1, self.g.enum_variants)
        } else {
            rng.pick(&self.g.kpool[fi][j]).clone()
        }
    }

    fn pick_val(&self, rng: &mut Rng, fi: usize, j: usize) -> V {
        if rng.chance(1, 12) {
            fresh(rng, self.g.facts[fi].vals[j].1, self.g.enum_variants)
        } else {
            rng.pick(&self.g.vpool[fi][j]).clone()
        }
    }

    fn pick_keys(&self, rng: &mut Rng, fi: usize, want_existing: Option<bool>) -> Vec<V> {
        let nk = self.g.facts[fi].keys.len();
        for _ in 0..20 {
            let ks: Vec<V> = if want_existing == Some(true) && !self.model.facts[fi].is_empty() && rng.chance(3, 4) {
                let n = rng.usize(self.model.facts[fi].len());
                self.model.facts[fi].keys().nth(n).unwrap().clone()
            } else {
                (0..nk).map(|j| self.pick_key(rng, fi, j)).collect()
            };
            match want_existing {
                Some(w) if self.model.facts[fi].contains_key(&ks) != w => continue,
                _ => return ks,
            }
        }
        (0..nk).map(|j| self.pick_key(rng, fi, j)).collect()
    }

    fn vals(vs: &[V]) -> Vec<Value> {
        vs.iter().map(V::to_value).collect()
    }

    /// Outcome handling shared by all mutations.
    ///
    /// `expect`: `Some(model_after)` = the statement fixes the outcome (must succeed and store
    /// that), `None` with `must_fail` = must fail and change nothing, otherwise the operation is
    /// outside the statement (create of an existing fact, delete of an absent one): only the
    /// targeted key may change and the model is resynchronised from what the runtime did.
    #[allow(clippy::too_many_arguments)]
    fn settle(
        &mut self,
        what: &str,
        desc: Value_,
        res: Result<Vec<VmEffect>, String>,
        in_statement: Option<Model>,
        must_fail: bool,
        lenient_target: Option<(usize, Vec<V>, Option<Vec<V>>)>,
    ) {
        self.m.eval();
        match (in_statement, must_fail) {
            (Some(after), _) => {
                match res {
                    Ok(_) => {
                        self.model = after;
                        self.m.count(&format!("{what}_ok"), 1);
                    }
                    Err(e) => {
                        self.violation(&format!("{what}-failed-but-model-succeeds"), json!({"op": desc, "error": e}));
                        // keep the model as is: the dump check below then verifies nothing changed
                    }
                }
            }
            (None, true) => {
                if res.is_ok() {
                    // apply nothing; the dump comparison reports what changed
                    self.violation(&format!("{what}-succeeded-but-model-fails"), json!({"op": desc}));
                } else {
                    self.m.count(&format!("{what}_rejected"), 1);
                }
            }
            (None, false) => {
                // Outside the statement: accept "failed, unchanged" or "applied naively".
                let (fi, key, newval) = lenient_target.expect("lenient target");
                if res.is_ok() {
                    match newval {
                        Some(v) => {
                            self.model.facts[fi].insert(key, v);
                        }
                        None => {
                            self.model.facts[fi].remove(&key);
                        }
                    }
                    self.m.count(&format!("{what}_outside_statement_succeeded"), 1);
                } else {
                    self.m.count(&format!("{what}_outside_statement_failed"), 1);
                }
            }
        }
        self.check_dump(what);
    }

    fn op_create(&mut self, rng: &mut Rng) {
        let fi = rng.usize(self.g.facts.len());
        let nv = self.g.facts[fi].vals.len();
        let existing = rng.chance(1, 8);
        let keys = self.pick_keys(rng, fi, Some(existing));
        let vals: Vec<V> = (0..nv).map(|j| self.pick_val(rng, fi, j)).collect();
        let exists = self.model.facts[fi].contains_key(&keys);
        let desc = json!({"op": "create", "fact": self.g.facts[fi].name, "keys": vs_json(&keys), "vals": vs_json(&vals), "exists_before": exists});
        self.log.push(desc.to_string());
        let mut args = Self::vals(&keys);
        args.extend(Self::vals(&vals));
        let res = self.action(&format!("c{fi}"), args);
        if exists {
            self.settle("create_existing", desc, res, None, false, Some((fi, keys, Some(vals))));
        } else {
            let mut after = self.model.clone();
            after.facts[fi].insert(keys.clone(), vals.clone());
            self.m.nontrivial(hash_of(&("create", &keys, &vals, self.model.facts[fi].len())));
            self.settle("create_absent", desc, res, Some(after), false, None);
        }
    }

    fn op_delete(&mut self, rng: &mut Rng) {
        let fi = rng.usize(self.g.facts.len());
        let want_existing = !rng.chance(1, 8);
        let keys = self.pick_keys(rng, fi, Some(want_existing));
        let exists = self.model.facts[fi].contains_key(&keys);
        let desc = json!({"op": "delete", "fact": self.g.facts[fi].name, "keys": vs_json(&keys), "exists_before": exists});
        self.log.push(desc.to_string());
        let res = self.action(&format!("d{fi}"), Self::vals(&keys));
        if exists {
            let mut after = self.model.clone();
            after.facts[fi].remove(&keys);
            self.m.nontrivial(hash_of(&("delete", &keys, self.model.facts[fi].len())));
            self.settle("delete_existing", desc, res, Some(after), false, None);
        } else {
            self.settle("delete_absent", desc, res, None, false, Some((fi, keys, None)));
        }
    }

    fn op_update(&mut self, rng: &mut Rng) {
        let fi = rng.usize(self.g.facts.len());
        let nv = self.g.facts[fi].vals.len();
        let want_existing = !rng.chance(1, 8);
        let keys = self.pick_keys(rng, fi, Some(want_existing));
        let cur = self.model.facts[fi].get(&keys).cloned();
        let kind = match rng.below(if nv == 2 { 4 } else { 3 }) {
            0 => UpdKind::Exact,
            1 => UpdKind::NoValue,
            2 => UpdKind::AllBind,
            _ => UpdKind::Partial,
        };
        let new: Vec<V> = (0..nv).map(|j| self.pick_val(rng, fi, j)).collect();
        // expected old values: usually the current ones, sometimes wrong
        let mut old: Vec<V> = match &cur {
            Some(c) => c.clone(),
            None => (0..nv).map(|j| self.pick_val(rng, fi, j)).collect(),
        };
        if rng.chance(1, 5) {
            let j = rng.usize(nv);
            old[j] = self.pick_val(rng, fi, j);
        }
        let desc = json!({"op": "update", "kind": format!("{kind:?}"), "fact": self.g.facts[fi].name, "keys": vs_json(&keys),
            "old": vs_json(&old), "new": vs_json(&new), "current": cur.as_ref().map(|c| vs_json(c))});
        self.log.push(desc.to_string());
        let mut args = Self::vals(&keys);
        let (name, matches) = match kind {
            UpdKind::Exact => {
                args.extend(Self::vals(&old));
                (format!("ue{fi}"), cur.as_ref() == Some(&old))
            }
            UpdKind::NoValue => (format!("un{fi}"), cur.is_some()),
            UpdKind::AllBind => (format!("ub{fi}"), cur.is_some()),
            UpdKind::Partial => {
                args.extend(Self::vals(&old[1..]));
                (format!("up{fi}"), cur.as_ref().is_some_and(|c| c[1] == old[1]))
            }
        };
        args.extend(Self::vals(&new));
        let res = self.action(&name, args);
        let what = format!("update_{}", format!("{kind:?}").to_lowercase());
        if matches {
            let mut after = self.model.clone();
            after.facts[fi].insert(keys.clone(), new.clone());
            self.m.nontrivial(hash_of(&("update", &keys, &new, kind as u8)));
            self.settle(&what, desc, res, Some(after), false, None);
        } else if cur.is_some() {
            // existing fact whose stored values differ from the expected ones: compare-and-swap fails
            self.settle(&format!("{what}_mismatch"), desc, res, None, true, None);
        } else {
            // absent fact: outside the statement; only a failure or a naive insert are tolerated
            self.settle(&format!("{what}_absent"), desc, res, None, false, Some((fi, keys, Some(new))));
        }
    }

    /// `create` of an absent fact and `delete` of an existing one (possibly the very same) as two
    /// commands of one action.
    fn op_create_delete(&mut self, rng: &mut Rng) {
        let fi = rng.usize(self.g.facts.len());
        let nv = self.g.facts[fi].vals.len();
        let ckeys = self.pick_keys(rng, fi, Some(false));
        if self.model.facts[fi].contains_key(&ckeys) {
            return;
        }
        let vals: Vec<V> = (0..nv).map(|j| self.pick_val(rng, fi, j)).collect();
        let dkeys = if rng.chance(1, 3) { ckeys.clone() } else { self.pick_keys(rng, fi, Some(true)) };
        let mut after = self.model.clone();
        after.facts[fi].insert(ckeys.clone(), vals.clone());
        if after.facts[fi].remove(&dkeys).is_none() {
            return;
        }
        let desc = json!({"op": "create+delete", "fact": self.g.facts[fi].name, "create": vs_json(&ckeys), "vals": vs_json(&vals), "delete": vs_json(&dkeys)});
        self.log.push(desc.to_string());
        let mut args = Self::vals(&ckeys);
        args.extend(Self::vals(&vals));
        args.extend(Self::vals(&dkeys));
        let res = self.action(&format!("cd{fi}"), args);
        self.m.nontrivial(hash_of(&("cd", &ckeys, &dkeys)));
        self.settle("create_delete_one_action", desc, res, Some(after), false, None);
    }

    fn op_probe(&mut self, rng: &mut Rng) {
        let si = rng.usize(self.g.shapes.len());
        let s = self.g.shapes[si].clone();
        let fi = s.fact;
        let f = &self.g.facts[fi];
        // Bound keys: often taken from an existing fact so that there are matches.
        let prefix: Vec<V> = if !self.model.facts[fi].is_empty() && rng.chance(2, 3) {
            let n = rng.usize(self.model.facts[fi].len());
            self.model.facts[fi].keys().nth(n).unwrap()[..s.p].to_vec()
        } else {
            (0..s.p).map(|j| self.pick_key(rng, fi, j)).collect()
        };
        let vfilter: Vec<Option<V>> = match &s.vmask {
            None => vec![],
            Some(mask) => mask.iter().enumerate().map(|(j, b)| b.then(|| self.pick_val(rng, fi, j))).collect(),
        };
        let mut args = Self::vals(&prefix);
        args.extend(vfilter.iter().flatten().map(V::to_value));
        let matches: Vec<(Vec<V>, Vec<V>)> =
            self.model.select(fi, &prefix, &vfilter).map(|(k, v)| (k.clone(), v.clone())).collect();
        let unfiltered: usize = self.model.select(fi, &prefix, &[]).count();
        let mode = rng.below(3);
        let (aname, mode_s) = match mode {
            0 => (format!("pc{si}"), "command"),
            1 => (format!("pa{si}"), "action"),
            _ => (format!("pm{si}"), "map"),
        };
        let desc = json!({"op": "probe", "mode": mode_s, "shape": si, "fact": f.name, "literal": self.g.literal(&s, ""),
            "bound_keys": vs_json(&prefix), "value_filter": vfilter.iter().map(|o| o.as_ref().map(V::json)).collect::<Vec<_>>(),
            "limits": s.limits, "model_matches": matches.len(), "model_prefix_matches": unfiltered});
        self.log.push(desc.to_string());
        let res = self.action(&aname, args);
        self.m.eval();
        self.m.seen("probe_modes", mode_s);
        let effects = match res {
            Ok(e) => e,
            Err(e) => {
                self.violation(&format!("probe-{mode_s}-failed"), json!({"op": desc, "error": e}));
                return;
            }
        };
        let h = hash_of(&(mode, &s.vmask, s.p, s.limits, matches.len().min(9), unfiltered.min(9), f.keys.iter().map(|k| k.1).collect::<Vec<_>>()));
        if unfiltered > 0 {
            self.m.nontrivial(h);
        }
        let nfilt = vfilter.iter().flatten().count();
        if mode == 2 {
            self.m.count("q_map", 1);
            self.m.count("map_facts_expected", matches.len() as u64);
            if nfilt > 0 {
                self.m.count("q_map_with_value_filter", 1);
                if matches.len() != unfiltered {
                    self.m.count("q_map_value_filter_excludes_some", 1);
                }
            }
            let mut seen: Vec<(Vec<V>, Vec<V>)> = vec![];
            let mut ended = false;
            for e in &effects {
                let fl = eff_fields(e);
                if e.name.as_str() == format!("SeenE{fi}") && !ended {
                    let k: Option<Vec<V>> = f.keys.iter().map(|(n, _)| fl.get(n).and_then(V::from_value)).collect();
                    let v: Option<Vec<V>> = f.vals.iter().map(|(n, _)| fl.get(n).and_then(V::from_value)).collect();
                    match (k, v) {
                        (Some(k), Some(v)) => seen.push((k, v)),
                        _ => {
                            self.violation("map-effect-malformed", json!({"op": desc, "effect": format!("{e:?}")}));
                            return;
                        }
                    }
                } else if e.name.as_str() == "MapEndE" && !ended {
                    ended = true;
                } else {
                    self.violation("map-unexpected-effect", json!({"op": desc, "effect": format!("{e:?}")}));
                    return;
                }
            }
            if !ended {
                self.violation("map-end-marker-missing", json!({"op": desc}));
                return;
            }
            if seen != matches {
                let mut sorted = seen.clone();
                sorted.sort();
                let all_prefix: Vec<(Vec<V>, Vec<V>)> =
                    self.model.select(fi, &prefix, &[]).map(|(k, v)| (k.clone(), v.clone())).collect();
                let sig = if sorted == matches {
                    "map-visit-order-differs-from-key-order"
                } else if nfilt > 0 && seen == all_prefix {
                    "map-ignores-value-field-filter"
                } else {
                    "map-visits-differ-from-model"
                };
                let sj: Vec<Value_> = seen.iter().map(|(k, v)| json!([vs_json(k), vs_json(v)])).collect();
                let mj: Vec<Value_> = matches.iter().map(|(k, v)| json!([vs_json(k), vs_json(v)])).collect();
                self.violation(sig, json!({"op": desc, "observed": sj, "expected": mj}));
            }
            return;
        }
        // query / exists / counts
        if effects.len() != 1 {
            self.violation("probe-effect-count", json!({"op": desc, "n": effects.len()}));
            return;
        }
        let e = &effects[0];
        let fl = eff_fields(e);
        let found: Option<(Vec<V>, Vec<V>)> = if e.name.as_str() == format!("Found{fi}") {
            let k: Option<Vec<V>> = f.keys.iter().map(|(n, _)| fl.get(n).and_then(V::from_value)).collect();
            let v: Option<Vec<V>> = f.vals.iter().map(|(n, _)| fl.get(n).and_then(V::from_value)).collect();
            match (k, v) {
                (Some(k), Some(v)) => Some((k, v)),
                _ => {
                    self.violation("probe-effect-malformed", json!({"op": desc, "effect": format!("{e:?}")}));
                    return;
                }
            }
        } else if e.name.as_str() == "NotFound" {
            None
        } else {
            self.violation("probe-unexpected-effect", json!({"op": desc, "effect": format!("{e:?}")}));
            return;
        };
        let n = matches.len() as i64;
        let [n1, n2, n3, n4] = s.limits;
        let checks: [(&str, Value, Value); 5] = [
            ("exists", fl.get("ex").cloned().unwrap_or(Value::Unit), Value::Bool(n > 0)),
            ("count_up_to", fl.get("cu").cloned().unwrap_or(Value::Unit), Value::Int(n.min(n1))),
            ("at_least", fl.get("al").cloned().unwrap_or(Value::Unit), Value::Bool(n >= n2)),
            ("at_most", fl.get("am").cloned().unwrap_or(Value::Unit), Value::Bool(n <= n3)),
            ("exactly", fl.get("xa").cloned().unwrap_or(Value::Unit), Value::Bool(n == n4)),
        ];
        self.m.count("q_query", 1);
        if found != matches.first().cloned() {
            let sig = if found.is_some() && matches.contains(found.as_ref().unwrap()) {
                "query-returns-a-match-that-is-not-first-in-key-order"
            } else {
                "query-result-differs-from-model"
            };
            self.violation(
                sig,
                json!({"op": desc, "observed": found.as_ref().map(|(k, v)| json!([vs_json(k), vs_json(v)])),
                    "expected": matches.first().map(|(k, v)| json!([vs_json(k), vs_json(v)]))}),
            );
        }
        for (kind, got, want) in checks {
            self.m.count(&format!("q_{kind}"), 1);
            if got != want {
                self.violation(
                    &format!("{kind}-differs-from-model"),
                    json!({"op": desc, "observed": format!("{got:?}"), "expected": format!("{want:?}"), "matches": n}),
                );
            }
        }
        if n > n1 {
            self.m.count("count_capped_at_limit", 1);
        }
        if n == n3 || n == n3 + 1 || n == n2 || n == n2 - 1 || n == n4 || n == n4 + 1 {
            self.m.count("count_at_boundary", 1);
        }
        if nfilt > 0 && (matches.len() != unfiltered) {
            self.m.count("q_value_filter_excludes_some", 1);
        }
        if matches.len() > 1 {
            self.m.count("q_multi_match", 1);
        }
        self.m.seen("probe_modes", mode_s);
    }
}

fn run_history<SP: StorageProvider>(
    m: &mut Monitor,
    hist_seed: u64,
    nops: u64,
    provider: SP,
    storage_kind: &str,
) {
    let rng = Rng::new(hist_seed);
    let g = Gen::new(&mut rng.fork(1));
    let compiled = match compile(&g.text) {
        Ok(c) => c,
        Err(e) => {
            // Generator bug, not a property violation.
            m.count("generator_policy_rejected", 1);
            m.inconclusive(&format!("generated policy did not compile (hist_seed {hist_seed}): {e}"));
            eprintln!("--- policy ---\n{}\n--- error ---\n{e}", g.text);
            return;
        }
    };
    let policy = new_policy(&compiled);
    let mut cs = ClientState::new(OneStore(policy), provider);
    let mut sink = RecSink::new();
    let graph = match cs.new_graph(&[0u8], act("init", vec![Value::Int(hist_seed as i64)]), &mut sink) {
        Ok(g) => g,
        Err(e) => {
            m.inconclusive(&format!("new_graph failed: {e}"));
            return;
        }
    };
    let nf = g.facts.len();
    m.count("schemas", nf as u64);
    m.count("histories", 1);
    m.seen("storage", storage_kind);
    for f in &g.facts {
        let shape: String = f.keys.iter().map(|k| k.1.ch()).chain(['>']).chain(f.vals.iter().map(|v| v.1.ch())).collect();
        m.seen("schema_shapes", &shape);
        for (j, k) in f.keys.iter().enumerate() {
            m.seen("key_types", k.1.text());
            if j == 0 {
                m.seen("leading_key_types", k.1.text());
            }
        }
    }
    m.sample(|| json!({"hist_seed": hist_seed.to_string(), "storage": storage_kind, "policy_head": g.text.lines().filter(|l| l.starts_with("fact ")).collect::<Vec<_>>(), "shapes": g.shapes.iter().map(|s| g.literal(s, "")).collect::<Vec<_>>()}));
    let ctx = json!({"hist_seed": hist_seed.to_string(), "nops": nops, "storage": storage_kind});
    let mut run = Run {
        g: &g,
        cs,
        graph,
        bufs: RuntimeBuffers::new(),
        sink,
        model: Model { facts: vec![ModelFact::new(); nf] },
        m,
        ctx,
        ops_done: 0,
        log: vec![],
    };
    let mut oprng = rng.fork(2);
    for i in 0..nops {
        run.ops_done = i;
        // fill first, then mix
        let total: usize = run.model.facts.iter().map(|f| f.len()).sum();
        let w_create = if total < 6 * nf { 60 } else if total > 28 * nf { 8 } else { 22 };
        match oprng.weighted(&[w_create, 12, 10, 3, 45, 6]) {
            0 => run.op_create(&mut oprng),
            1 => run.op_update(&mut oprng),
            2 => run.op_delete(&mut oprng),
            3 => run.op_create_delete(&mut oprng),
            4 => run.op_probe(&mut oprng),
            _ => run.check_storage_queries(&mut oprng),
        }
        if run.m.violations.len() >= run.m.max_violations {
            break;
        }
    }
    // Negative ints, extremes and prefix strings really were among the stored keys.
    for (fi, f) in g.facts.iter().enumerate() {
        for k in run.model.facts[fi].keys() {
            for (v, (_, _)) in k.iter().zip(&f.keys) {
                match v {
                    V::Int(i) if *i < 0 => run.m.count("stored_negative_int_keys", 1),
                    V::Int(i) if *i == i64::MAX => run.m.count("stored_i64_max_keys", 1),
                    V::Str(s) if s.is_empty() => run.m.count("stored_empty_string_keys", 1),
                    _ => {}
                }
                if matches!(v, V::Int(i64::MIN)) {
                    run.m.count("stored_i64_min_keys", 1);
                }
            }
        }
    }
}

fn run_one(m: &mut Monitor, hist_seed: u64, nops: u64, libc: bool) {
    if libc {
        let dir = Scratch::new(&format!("polfacts-{hist_seed:x}"));
        let fm = match FileManager::new(dir.path()) {
            Ok(f) => f,
            Err(e) => {
                m.inconclusive(&format!("FileManager::new: {e}"));
                return;
            }
        };
        run_history(m, hist_seed, nops, LinearStorageProvider::new(fm), "libc");
    } else {
        run_history(m, hist_seed, nops, MemStorageProvider::default(), "mem");
    }
}

fn main() {
    let args = Args::parse();
    let mut m = Monitor::new(
        "C29",
        "per history: 1-2 generated fact schemas (1-3 keys, 1-2 values over int/bool/string/id/enum), generated policy text compiled with the real compiler, run on ClientState+VmPolicy+linear storage; ops = create/update(4 forms)/delete/two-command actions/probes (query, exists, count_up_to, at_least, at_most, exactly in command and action context; map in actions) with generated prefixes and value filters; oracle = typed ordered model store + full fact dump via fact_cache/query_prefix after every mutation. non-trivial = distinct (mutation, key, value) cases and probes whose prefix matches at least one stored fact, by (mode, shape, limits, match counts, key types)",
    )
    .min(300)
    .require("q_query", "query probes must run")
    .require("q_map", "map probes must run")
    .require("q_multi_match", "some probes must match several facts so that order matters")
    .require("count_capped_at_limit", "some counts must exceed the limit so that the cap is exercised")
    .require("q_value_filter_excludes_some", "value filters must exclude facts that match the key prefix")
    .require("stored_negative_int_keys", "negative int keys must be stored")
    .require("dumps_compared", "fact dumps must be compared")
    .require("update_exact_ok", "compare-and-swap updates must succeed sometimes")
    .require("delete_existing_ok", "deletes of existing facts must run")
    .assume("the envelope FFI is the runtime's unsigned test envelope (signing is C35's subject)")
    .assume("one client, linear history (merges/braids of fact indices are out of scope here)");

    if let Some(r) = args.replay_case() {
        let c = &r["case"]["replay"];
        let hs: u64 = c["hist_seed"].as_str().and_then(|s| s.parse().ok()).expect("hist_seed");
        let nops = c["nops"].as_u64().unwrap_or(400);
        run_one(&mut m, hs, nops, c["storage"].as_str() == Some("libc"));
        finish_all(&args, vec![m]);
    }

    let threads = cores();
    let hist_per_shard = args.n(20, 500);
    let nops = args.n(600, 1500);
    let base = Rng::new(args.seed).fork(29);
    let thorough = args.tier == Tier::Thorough;
    let results = par_shards(threads, |i, _n| {
        let mut w = m.worker();
        for h in 0..hist_per_shard {
            let hs = base.fork((i as u64) << 32 | h).u64();
            // libc file storage: every 3rd history in thorough, one per shard in quick
            let libc = if thorough { h % 3 == 2 } else { h == 1 };
            run_one(&mut w, hs, nops, libc);
            if w.violations.len() >= w.max_violations {
                break;
            }
        }
        w
    });
    m.max_violations = 24;
    absorb_all(&mut m, results, 2);
    finish_all(&args, vec![m]);
}
