//! C19 with real `VmPolicy` replicas: hello notifications never suppress a needed sync.
//!
//! 3-5 devices with real engines, keystores and the signing policy share one graph. They
//! publish concurrent commands and chains by actions on their own replicas and receive
//! different, ancestor-closed subsets of each other's wire commands in random topological
//! orders, so that committed multi-head states with different head sets arise (and replicas
//! that collapsed their heads by running an action). The hello decision of every ordered
//! replica pair is checked against the committed command sets, and the merge ids produced by
//! the real `VmPolicy::merge` are sampled for injectivity.
use std::collections::{BTreeMap, BTreeSet};

use aranya_policy_vm::{Machine, Value};
use aranya_runtime::{Address, GraphId, MemSpill, TraversalBuffer};
use mon_e2e::{absorb_all, world::*};
use vcore::*;

const NAMES: &[&str] = &["D0", "D1", "D2", "D3", "D4"];

type Id = [u8; 32];

struct Ctx<'a> {
    m: &'a mut Monitor,
    replay: J,
    log: Vec<String>,
    /// sorted parent pair -> merge id, over everything observed in this world
    merges: BTreeMap<(Id, Id), Id>,
    /// merge id -> parent pair
    merge_ids: BTreeMap<Id, (Id, Id)>,
}

impl Ctx<'_> {
    fn violation(&mut self, sig: &str, detail: J) {
        let tail: Vec<&String> = self.log.iter().rev().take(25).rev().collect();
        self.m.violation(sig, json!({"replay": self.replay, "detail": detail, "history_tail": tail}));
    }

    /// Record one (parent pair -> merge id) observation.
    fn observe_merge(&mut self, a: Id, b: Id, id: Id, origin: &str) {
        let pair = if a <= b { (a, b) } else { (b, a) };
        self.m.count("merge_id_observations", 1);
        match self.merges.get(&pair) {
            Some(prev) if *prev != id => {
                self.violation(
                    "merge-id-not-a-function-of-the-parent-pair",
                    json!({"parents": [hex(&pair.0), hex(&pair.1)], "ids": [hex(prev), hex(&id)], "origin": origin}),
                );
            }
            Some(_) => {}
            None => {
                self.merges.insert(pair, id);
                self.m.count("distinct_merge_pairs", 1);
                self.m.nontrivial(hash_of(&("merge", pair, id)));
            }
        }
        match self.merge_ids.get(&id) {
            Some(prev) if *prev != pair => {
                let prev = *prev;
                self.violation(
                    "two-parent-pairs-share-one-merge-id",
                    json!({"merge_id": hex(&id), "pair_1": [hex(&prev.0), hex(&prev.1)], "pair_2": [hex(&pair.0), hex(&pair.1)], "origin": origin}),
                );
            }
            Some(_) => {}
            None => {
                self.merge_ids.insert(id, pair);
            }
        }
    }
}

fn short(id: &Id) -> String {
    hex(&id[..4])
}

fn action(ctx: &mut Ctx<'_>, graph: GraphId, dev: &mut Device, name: &str, args: Vec<Value>) -> bool {
    dev.sink.take();
    let r = catch(|| dev.cs.action(graph, &mut dev.sink, act(name, args), &mut dev.bufs, MemSpill::new));
    dev.sink.take();
    match r {
        Ok(Ok(())) => {
            ctx.log.push(format!("{} {name} ok", dev.name));
            ctx.m.count("actions_ok", 1);
            true
        }
        Ok(Err(e)) => {
            ctx.log.push(format!("{} {name} rejected: {e}", dev.name));
            ctx.m.count("actions_rejected_by_policy", 1);
            false
        }
        Err(p) => {
            ctx.violation(&format!("hello-vm-panic:{}", p.site()), json!({"action": name, "device": dev.name, "panic": p.what}));
            false
        }
    }
}

/// Deliver an ancestor-closed random subset of what `dst` lacks from `src`, in a random
/// topological order, through one transaction (1-3 add_commands calls) + commit.
fn deliver_subset(ctx: &mut Ctx<'_>, rng: &mut Rng, graph: GraphId, src: &mut Device, dst: &mut Device, p_num: u64) -> bool {
    let cmds = match fetch(graph, dst, src) {
        Ok(c) => c,
        Err(e) => {
            ctx.m.inconclusive(&format!("sync exchange failed: {e}"));
            return false;
        }
    };
    if cmds.is_empty() {
        return true;
    }
    let have: BTreeSet<Id> = match snapshot(&mut dst.cs, graph) {
        Ok(s) => s.cmds.keys().copied().collect(),
        Err(e) => {
            ctx.m.inconclusive(&format!("snapshot failed: {e}"));
            return false;
        }
    };
    let parents = |c: &OwnedCmd| -> Vec<Id> {
        match c.parent {
            aranya_runtime::Prior::None => vec![],
            aranya_runtime::Prior::Single(a) => vec![idb(a.id)],
            aranya_runtime::Prior::Merge(a, b) => vec![idb(a.id), idb(b.id)],
        }
    };
    // ancestor-closed subset (the wire list is ancestor-first)
    let mut chosen: Vec<OwnedCmd> = vec![];
    let mut known = have.clone();
    for c in &cmds {
        if known.contains(&idb(c.id)) {
            continue;
        }
        if parents(c).iter().all(|p| known.contains(p)) && rng.chance(p_num, 10) {
            known.insert(idb(c.id));
            chosen.push(c.clone());
        }
    }
    if chosen.is_empty() {
        return true;
    }
    // random topological order
    let mut order: Vec<OwnedCmd> = vec![];
    let mut done = have;
    while !chosen.is_empty() {
        let ready: Vec<usize> = (0..chosen.len()).filter(|i| parents(&chosen[*i]).iter().all(|p| done.contains(p))).collect();
        let i = *rng.pick(&ready);
        let c = chosen.remove(i);
        done.insert(idb(c.id));
        order.push(c);
    }
    let n = order.len();
    let batches = rng.urange(1, 3.min(n));
    let mut trx = dst.cs.transaction(graph);
    dst.sink.take();
    let mut start = 0;
    for b in 0..batches {
        let end = if b + 1 == batches || start >= n { n } else { (start + rng.urange(1, n - start)).min(n) };
        if end > start {
            let r = catch(|| dst.cs.add_commands(&mut trx, &mut dst.sink, &order[start..end], &mut dst.bufs, MemSpill::new));
            match r {
                Ok(Ok(_)) => {}
                Ok(Err(e)) => {
                    let detail = json!({"from": src.name, "to": dst.name, "error": e.to_string(), "batch": order[start..end].iter().map(OwnedCmd::json).collect::<Vec<_>>()});
                    ctx.violation("honest-commands-rejected-on-delivery", detail);
                    return false;
                }
                Err(p) => {
                    ctx.violation(&format!("hello-vm-panic:{}", p.site()), json!({"from": src.name, "to": dst.name, "panic": p.what}));
                    return false;
                }
            }
        }
        start = end;
    }
    match catch(|| dst.cs.commit(trx, &mut dst.sink, &mut dst.bufs, MemSpill::new)) {
        Ok(Ok(_)) => {}
        Ok(Err(e)) => {
            ctx.violation("commit-of-honest-commands-failed", json!({"from": src.name, "to": dst.name, "error": e.to_string()}));
            return false;
        }
        Err(p) => {
            ctx.violation(&format!("hello-vm-panic:{}", p.site()), json!({"from": src.name, "to": dst.name, "panic": p.what}));
            return false;
        }
    }
    dst.sink.take();
    ctx.log.push(format!("{} <- {}: {} of {} commands [{}]", dst.name, src.name, n, cmds.len(), order.iter().map(|c| short(&idb(c.id))).collect::<Vec<_>>().join(",")));
    ctx.m.count("commands_delivered", n as u64);
    if n < cmds.len() {
        ctx.m.count("partial_deliveries", 1);
    }
    true
}

struct View {
    snap: Snap,
    hello: Address,
    nonmerge: BTreeSet<Id>,
    max_cut_of_heads: u64,
}

fn view(ctx: &mut Ctx<'_>, graph: GraphId, dev: &mut Device) -> Option<View> {
    let snap = match snapshot(&mut dev.cs, graph) {
        Ok(s) if s.exists => s,
        Ok(_) => {
            ctx.m.inconclusive("a replica that should hold the graph has no storage");
            return None;
        }
        Err(e) => {
            ctx.m.inconclusive(&format!("snapshot failed: {e}"));
            return None;
        }
    };
    let hello = match catch(|| dev.cs.hello_head(graph)) {
        Ok(Ok(h)) => h,
        Ok(Err(e)) => {
            ctx.violation("hello-head-failed-on-a-committed-replica", json!({"device": dev.name, "error": e.to_string(), "heads": snap.heads.iter().map(short).collect::<Vec<_>>()}));
            return None;
        }
        Err(p) => {
            ctx.violation(&format!("hello-vm-panic:{}", p.site()), json!({"device": dev.name, "panic": p.what, "at": "hello_head"}));
            return None;
        }
    };
    let nonmerge = snap.cmds.iter().filter(|(_, (_, _, p))| p.len() < 2).map(|(id, _)| *id).collect();
    let max_cut_of_heads = snap.heads.iter().filter_map(|h| snap.cmds.get(h)).map(|c| c.0).max().unwrap_or(0);
    Some(View { snap, hello, nonmerge, max_cut_of_heads })
}

/// The oracle over all ordered replica pairs.
fn check_pairs(ctx: &mut Ctx<'_>, graph: GraphId, devs: &mut [Device], outsider: &mut Device, when: &str) -> bool {
    let mut views = vec![];
    for d in devs.iter_mut() {
        match view(ctx, graph, d) {
            Some(v) => views.push(v),
            None => return false,
        }
    }
    // merge ids stored by the replicas, and the virtual merge of two-head sets
    for (i, v) in views.iter().enumerate() {
        let mut merges_here = 0;
        for (id, (_, _, parents)) in &v.snap.cmds {
            if let [a, b] = parents[..] {
                merges_here += 1;
                ctx.observe_merge(a, b, *id, &format!("stored by {}", devs[i].name));
            }
        }
        ctx.m.max("max_merges_in_a_graph", merges_here);
        if v.snap.heads.len() == 2 {
            let mut it = v.snap.heads.iter();
            let (a, b) = (*it.next().unwrap(), *it.next().unwrap());
            ctx.observe_merge(a, b, idb(v.hello.id), &format!("hello head of {}", devs[i].name));
            ctx.m.count("virtual_two_head_merges", 1);
        }
        ctx.m.max("max_heads", v.snap.heads.len() as u64);
        if v.snap.heads.len() == 1 && v.hello.id.as_array() != v.snap.heads.iter().next().unwrap() {
            ctx.violation(
                "single-head-replica-advertises-something-else",
                json!({"device": devs[i].name, "head": hex(v.snap.heads.iter().next().unwrap()), "hello": v.hello.id.to_string()}),
            );
        }
    }
    let mut tb = TraversalBuffer::default();
    for x in 0..views.len() {
        // a client without the graph always syncs
        let vx = &views[x];
        ctx.m.eval();
        match catch(|| outsider.cs.should_sync_on_hello(graph, vx.hello, &mut tb)) {
            Ok(Ok(true)) => ctx.m.count("outsider_syncs", 1),
            Ok(Ok(false)) => ctx.violation("replica-without-the-graph-declines-to-sync", json!({"advertiser": devs[x].name, "hello": vx.hello.id.to_string()})),
            Ok(Err(e)) => ctx.violation("should-sync-failed-without-graph", json!({"error": e.to_string()})),
            Err(p) => ctx.violation(&format!("hello-vm-panic:{}", p.site()), json!({"panic": p.what, "at": "outsider"})),
        }
        for y in 0..views.len() {
            if x == y {
                continue;
            }
            let (vx, vy) = (&views[x], &views[y]);
            ctx.m.eval();
            ctx.m.count("pairs_checked", 1);
            let r = catch(|| devs[y].cs.should_sync_on_hello(graph, vx.hello, &mut tb));
            let decision = match r {
                Ok(Ok(d)) => d,
                Ok(Err(e)) => {
                    ctx.violation("should-sync-on-hello-failed", json!({"x": devs[x].name, "y": devs[y].name, "error": e.to_string()}));
                    continue;
                }
                Err(p) => {
                    ctx.violation(&format!("hello-vm-panic:{}", p.site()), json!({"panic": p.what, "at": "should_sync_on_hello"}));
                    continue;
                }
            };
            let missing: Vec<&Id> = vx.nonmerge.difference(&vy.nonmerge).collect();
            let same_heads = vx.snap.heads == vy.snap.heads;
            let multi = vx.snap.heads.len() > 1 || vy.snap.heads.len() > 1;
            let both_multi = vx.snap.heads.len() > 1 && vy.snap.heads.len() > 1;
            let desc = || {
                json!({"when": when, "advertiser": devs[x].name, "receiver": devs[y].name,
                    "advertiser_heads": vx.snap.heads.iter().map(hex_id).collect::<Vec<_>>(),
                    "receiver_heads": vy.snap.heads.iter().map(hex_id).collect::<Vec<_>>(),
                    "hello_head": {"id": hex(vx.hello.id.as_bytes()), "max_cut": vx.hello.max_cut.to_string()},
                    "receiver_hello_head": hex(vy.hello.id.as_bytes()),
                    "advertiser_commands": vx.snap.cmds.len(), "receiver_commands": vy.snap.cmds.len(),
                    "missing_at_receiver": missing.iter().map(|i| hex_id(i)).collect::<Vec<_>>()})
            };
            if multi {
                ctx.m.count("multi_head_pairs", 1);
            }
            if both_multi && !same_heads {
                ctx.m.count("multi_head_pairs_with_different_head_sets", 1);
                if vx.snap.heads.iter().next() == vy.snap.heads.iter().next() {
                    ctx.m.count("pairs_sharing_smallest_id_head", 1);
                }
                if vx.max_cut_of_heads == vy.max_cut_of_heads {
                    ctx.m.count("pairs_with_equal_max_max_cut", 1);
                }
            }
            if vx.snap.heads.len() == 1 && vy.snap.heads.len() > 1 || vx.snap.heads.len() > 1 && vy.snap.heads.len() == 1 {
                ctx.m.count("collapsed_vs_multi_head_pairs", 1);
            }
            ctx.m.nontrivial(hash_of(&(&vx.snap.heads, &vy.snap.heads, decision)));
            if decision {
                ctx.m.count("decided_to_sync", 1);
                if missing.is_empty() {
                    // allowed by the statement (a spurious sync transfers nothing)
                    ctx.m.count("decided_to_sync_with_nothing_missing", 1);
                }
            } else {
                ctx.m.count("declined", 1);
                if multi {
                    ctx.m.count("declined_multi_head", 1);
                }
                if !missing.is_empty() {
                    ctx.violation("hello-declined-but-advertiser-has-commands-the-receiver-lacks", desc());
                }
            }
            if same_heads {
                ctx.m.count("pairs_with_equal_head_sets", 1);
                if multi {
                    ctx.m.count("pairs_with_equal_multi_head_sets", 1);
                }
                if vx.hello != vy.hello {
                    ctx.violation("equal-head-sets-different-hello-heads", desc());
                }
            } else if vx.hello.id == vy.hello.id {
                // Different head sets may share a hello head only when one side holds the
                // materialised merge the other side computes virtually, i.e. when both carry
                // the same non-merge commands.
                if vx.nonmerge != vy.nonmerge {
                    ctx.violation("different-head-sets-with-different-commands-share-a-hello-head", desc());
                } else {
                    ctx.m.count("materialised_vs_virtual_merge_share_hello_head", 1);
                }
            } else {
                ctx.m.count("different_head_sets_different_hello_heads", 1);
            }
        }
    }
    true
}

fn hex_id(id: &Id) -> String {
    hex(id)
}

fn run_world(m: &mut Monitor, machine: &Machine, world_seed: u64, rounds: u64) {
    let mut rng = Rng::new(world_seed);
    let det = DetRng::new(rng.fork(7));
    let n = rng.urange(3, 5);
    let mut devs: Vec<Device> = vec![];
    let mut keys: Vec<DeviceKeys> = vec![];
    for name in NAMES.iter().take(n) {
        let (d, k) = make_device(name, machine, &det);
        devs.push(d);
        keys.push(k);
    }
    let (mut outsider, _) = make_device("Z", machine, &det);
    let mut ctx = Ctx {
        m,
        replay: json!({"world_seed": world_seed.to_string(), "rounds": rounds}),
        log: vec![],
        merges: BTreeMap::new(),
        merge_ids: BTreeMap::new(),
    };
    devs[0].sink.take();
    let init = act("init", vec![keys[0].public_keys.clone(), Value::Int(world_seed as i64 & 0xffff)]);
    let d0 = &mut devs[0];
    let graph = match d0.cs.new_graph(&[0u8], init, &mut d0.sink) {
        Ok(g) => g,
        Err(e) => {
            ctx.m.inconclusive(&format!("new_graph failed: {e}"));
            return;
        }
    };
    for k in keys.iter().skip(1) {
        if !action(&mut ctx, graph, &mut devs[0], "add_device", vec![k.public_keys.clone()]) {
            ctx.m.inconclusive("add_device failed");
            return;
        }
    }
    // everybody gets the base graph
    for i in 1..n {
        let (a, b) = devs.split_at_mut(i);
        if !deliver_subset(&mut ctx, &mut rng, graph, &mut a[0], &mut b[0], 10) {
            return;
        }
    }
    ctx.m.count("worlds", 1);
    ctx.m.seen("devices_per_world", &n.to_string());
    for round in 0..rounds {
        let mode = rng.weighted(&[60, 25, 15]);
        ctx.log.push(format!("-- round {round} mode {mode}"));
        for d in devs.iter_mut() {
            if rng.chance(6, 10) {
                for _ in 0..rng.urange(1, 2) {
                    let (name, args) = random_action(&mut rng);
                    action(&mut ctx, graph, d, name, args);
                }
            }
        }
        if !check_pairs(&mut ctx, graph, &mut devs, &mut outsider, "after actions") {
            return;
        }
        let passes = if mode == 1 { 2 } else { 1 };
        for _ in 0..passes {
            let mut pairs: Vec<(usize, usize)> = (0..n).flat_map(|s| (0..n).filter(move |d| *d != s).map(move |d| (s, d))).collect();
            rng.shuffle(&mut pairs);
            for (s, d) in pairs {
                let p = match mode {
                    0 => {
                        if !rng.chance(1, 2) {
                            continue;
                        }
                        *rng.pick(&[3u64, 5, 7, 10])
                    }
                    1 => 10,
                    _ => continue,
                };
                let (src, dst) = if s < d {
                    let (a, b) = devs.split_at_mut(d);
                    (&mut a[s], &mut b[0])
                } else {
                    let (a, b) = devs.split_at_mut(s);
                    (&mut b[0], &mut a[d])
                };
                if !deliver_subset(&mut ctx, &mut rng, graph, src, dst, p) {
                    return;
                }
            }
        }
        if mode != 2 && !check_pairs(&mut ctx, graph, &mut devs, &mut outsider, "after deliveries") {
            return;
        }
        if ctx.m.violations.len() >= ctx.m.max_violations {
            return;
        }
    }
    ctx.m.sample(|| json!({"world_seed": world_seed.to_string(), "devices": n, "rounds": rounds, "distinct_merge_pairs": ctx.merges.len(), "history_tail": ctx.log.iter().rev().take(8).collect::<Vec<_>>()}));
}

fn main() {
    let args = Args::parse();
    let mut m = Monitor::new(
        "C19",
        "worlds of 3-5 real VmPolicy replicas (DefaultEngine, keystores, signing policy) on one graph plus one client without the graph: concurrent actions on every replica, ancestor-closed random subsets of the peers' wire commands (from real sync responses) delivered in random topological orders through transaction/add_commands/commit, periodic full syncs, heads collapsed by later actions; after the actions and after the deliveries of every round all ordered replica pairs are checked (hello_head of X, should_sync_on_hello of Y, committed command sets by walking the storage) and every stored merge command and every two-head virtual merge feeds a (parent pair <-> merge id) table. non-trivial = distinct (advertiser head set, receiver head set, decision) and distinct merge parent pairs",
    )
    .min(300)
    .require("declined", "some pairs must decline so that the implication is exercised")
    .require("declined_multi_head", "declines must occur with multi-head states")
    .require("decided_to_sync", "some pairs must decide to sync")
    .require("multi_head_pairs_with_different_head_sets", "different multi-head sets must meet")
    .require("pairs_sharing_smallest_id_head", "different head sets sharing the smallest-id head must meet")
    .require("pairs_with_equal_max_max_cut", "different head sets with equal maximum max_cut must meet")
    .require("pairs_with_equal_multi_head_sets", "equal multi-head sets must be compared")
    .require("collapsed_vs_multi_head_pairs", "collapsed replicas must meet multi-head replicas")
    .require("distinct_merge_pairs", "merge commands must be observed")
    .require("outsider_syncs", "the client without the graph must be asked")
    .assume("merge commands are derivable from their parents and carry nothing: only non-merge commands count as missing")
    .assume("different head sets may share a hello head when one replica stores the merge the other computes virtually (same non-merge commands)");

    let machine = compile_machine();

    if let Some(r) = args.replay_case() {
        let c = &r["case"]["replay"];
        let ws: u64 = c["world_seed"].as_str().and_then(|s| s.parse().ok()).expect("world_seed");
        run_world(&mut m, &machine, ws, c["rounds"].as_u64().unwrap_or(12));
        finish_all(&args, vec![m]);
    }

    let threads = cores();
    let worlds_per_shard = args.n(6, 80);
    let rounds = args.n(14, 30);
    let base = Rng::new(args.seed).fork(19);
    let results = par_shards(threads, |i, _| {
        let mut w = m.worker();
        for k in 0..worlds_per_shard {
            let ws = base.fork((i as u64) << 32 | k).u64();
            run_world(&mut w, &machine, ws, rounds);
            if w.violations.len() >= w.max_violations {
                break;
            }
        }
        w
    });
    m.max_violations = 24;
    absorb_all(&mut m, results, 2);
    finish_all(&args, vec![m]);
}
