//! C35: replicas accept only authentic commands.
//!
//! Two devices with real `DefaultEngine`s, keystores and a signing policy (crypto / device /
//! envelope / idam / perspective FFIs: seal blocks sign with the device signing key, open blocks
//! verify against the author's registered public key stored in facts). Honest commands are
//! produced by actions, captured as wire commands from a real `SyncRequester`/`SyncResponder`
//! exchange and delivered to the other replica through `transaction` + `add_commands` +
//! `commit`, either intact or with exactly one wire field changed.
use aranya_crypto::{DeviceId, default::DefaultEngine, keystore::memstore::MemStore};
use aranya_policy_vm::{Machine, Value, ast::Identifier};
use aranya_runtime::{Address, ClientError, CmdId, GraphId, MemSpill, Prior, VmProtocolData};
use mon_e2e::{absorb_all, world::*};
use vcore::*;



/// Command kinds with identical field layout and priority (a kind swap decodes fine, so only
/// the signature over the command name can stop it).
fn compatible_kind(kind: &str) -> &'static str {
    match kind {
        "SetCounter" => "AddCounter",
        "AddCounter" => "SetCounter",
        "DelCounter" => "ZeroCounter",
        "ZeroCounter" => "DelCounter",
        "PostNote" => "ClearNote",
        "ClearNote" => "PostNote",
        "Init" => "AddDevice",
        _ => "SetCounter",
    }
}


/// Owned form of `VmProtocolData`.
#[derive(Clone, Debug, PartialEq, Eq)]
struct Proto {
    author: DeviceId,
    kind: String,
    fields: Vec<u8>,
    sig: Vec<u8>,
}

impl Proto {
    fn decode(data: &[u8]) -> Option<Proto> {
        let d: VmProtocolData<'_> = postcard::from_bytes(data).ok()?;
        Some(Proto {
            author: d.author_id,
            kind: d.kind.as_str().to_string(),
            fields: d.serialized_fields.to_vec(),
            sig: d.signature.to_vec(),
        })
    }
    fn encode(&self) -> Option<Vec<u8>> {
        let d = VmProtocolData {
            author_id: self.author,
            kind: self.kind.parse::<Identifier>().ok()?,
            serialized_fields: &self.fields,
            signature: &self.sig,
        };
        postcard::to_allocvec(&d).ok()
    }
}



// ---------------------------------------------------------------------------
// Mutations
// ---------------------------------------------------------------------------

const MUTATIONS: &[&str] = &[
    "payload-bit",
    "payload-swap",
    "kind",
    "kind-unknown",
    "parent",
    "author",
    "id-bit",
    "sig-bit",
    "sig-swap",
    "id-existing",
    // distinguished id values a sentinel comparison could let through
    "id-zero",
    "id-ones",
    "id-parent",
    "id-graph",
];

struct World {
    graph: GraphId,
    /// Honest commands seen so far (for swap material): (kind, author, fields, sig)
    honest: Vec<Proto>,
    registered: Vec<DeviceId>,
}

fn mutate(
    rng: &mut Rng,
    kind: &str,
    cmd: &OwnedCmd,
    proto: &Proto,
    w: &World,
    dst_snap: &Snap,
) -> Option<(OwnedCmd, J)> {
    let mut c = cmd.clone();
    let mut p = proto.clone();
    let mut note = json!(null);
    match kind {
        "payload-bit" => {
            if p.fields.is_empty() {
                p.fields.push(rng.u64() as u8);
            } else {
                let i = rng.usize(p.fields.len());
                let bit = 1u8 << rng.below(8);
                p.fields[i] ^= bit;
                note = json!({"byte": i, "bit": bit});
            }
        }
        "payload-swap" => {
            // Payload of another honest command of the same kind (structurally valid).
            let cands: Vec<&Proto> = w.honest.iter().filter(|h| h.kind == p.kind && h.fields != p.fields).collect();
            if let Some(h) = (!cands.is_empty()).then(|| *rng.pick(&cands)) {
                p.fields = h.fields.clone();
                note = json!("payload of another honest command of this kind");
            } else {
                let n = p.fields.len();
                if n == 0 {
                    return None;
                }
                p.fields[n - 1] = p.fields[n - 1].wrapping_add(1);
                note = json!("last payload byte + 1");
            }
        }
        "kind" => {
            p.kind = compatible_kind(&p.kind).to_string();
            note = json!({"new_kind": p.kind});
        }
        "kind-unknown" => {
            p.kind = "Bogus".to_string();
            note = json!("a command name the policy does not define");
        }
        "parent" => {
            // Another existing command of the receiving replica, with its real max cut.
            let cur = match cmd.parent {
                Prior::Single(a) => Some(idb(a.id)),
                _ => None,
            };
            let cands: Vec<(&[u8; 32], &(u64, u64, Vec<[u8; 32]>))> =
                dst_snap.cmds.iter().filter(|(id, _)| Some(**id) != cur && **id != idb(cmd.id)).collect();
            if cands.is_empty() {
                return None;
            }
            let (id, (mc, _, _)) = *rng.pick(&cands);
            c.parent = Prior::Single(Address { id: CmdId::from_bytes(*id), max_cut: aranya_runtime::MaxCut::new(*mc) });
            note = json!({"new_parent": hex(id), "max_cut": mc});
        }
        "author" => {
            let others: Vec<&DeviceId> = w.registered.iter().filter(|d| **d != p.author).collect();
            if rng.chance(3, 4) && !others.is_empty() {
                p.author = **rng.pick(&others);
                note = json!("another registered device");
            } else {
                let mut b = *p.author.as_array();
                b[rng.usize(32)] ^= 1 << rng.below(8);
                p.author = DeviceId::from_bytes(b);
                note = json!("one bit of the author id flipped");
            }
        }
        "id-bit" => {
            let mut b = idb(c.id);
            b[rng.usize(32)] ^= 1 << rng.below(8);
            c.id = CmdId::from_bytes(b);
        }
        "id-zero" => {
            c.id = CmdId::from_bytes([0u8; 32]);
            note = json!("the all-zero (default) id");
        }
        "id-ones" => {
            c.id = CmdId::from_bytes([0xffu8; 32]);
            note = json!("the all-ones id");
        }
        "id-parent" => {
            let Prior::Single(a) = cmd.parent else { return None };
            c.id = a.id;
            note = json!("the id of the command's own parent");
        }
        "id-graph" => {
            c.id = CmdId::from_bytes(*w.graph.as_array());
            note = json!("the graph id (id of the init command)");
        }
        "id-existing" => {
            let cands: Vec<&[u8; 32]> = dst_snap.cmds.keys().filter(|id| **id != idb(cmd.id)).collect();
            if cands.is_empty() {
                return None;
            }
            c.id = CmdId::from_bytes(**rng.pick(&cands));
            note = json!("id of a command the receiver already has");
        }
        "sig-bit" => {
            if p.sig.is_empty() {
                return None;
            }
            let i = rng.usize(p.sig.len());
            p.sig[i] ^= 1 << rng.below(8);
            note = json!({"byte": i});
        }
        "sig-swap" => {
            let cands: Vec<&Proto> = w.honest.iter().filter(|h| h.author == p.author && h.sig != p.sig).collect();
            if cands.is_empty() {
                return None;
            }
            p.sig = rng.pick(&cands).sig.clone();
            note = json!("valid signature of another command by the same author");
        }
        _ => unreachable!(),
    }
    c.data = p.encode()?;
    // False-alarm guard: a "mutation" that re-encodes to the same wire command is no change.
    if c.data == cmd.data && c.id == cmd.id && c.parent == cmd.parent {
        return None;
    }
    Some((c, note))
}

// ---------------------------------------------------------------------------
// Delivery with the oracle
// ---------------------------------------------------------------------------

struct Ctx<'a> {
    m: &'a mut Monitor,
    replay: J,
    log: Vec<String>,
}

impl Ctx<'_> {
    fn violation(&mut self, sig: &str, detail: J) {
        let tail: Vec<&String> = self.log.iter().rev().take(15).rev().collect();
        self.m.violation(sig, json!({"replay": self.replay, "detail": detail, "history_tail": tail}));
    }
}

/// Deliver `cmds` (in order) from `src` to `dst`: every non-merge command first in all mutated
/// forms (must be rejected, nothing changes), then intact (must be accepted).
fn deliver(ctx: &mut Ctx<'_>, rng: &mut Rng, w: &mut World, src: &Device, dst: &mut Device, cmds: &[OwnedCmd]) -> bool {
    let graph = w.graph;
    for cmd in cmds {
        let before = match snapshot(&mut dst.cs, graph) {
            Ok(s) => s,
            Err(e) => {
                ctx.m.inconclusive(&format!("snapshot failed: {e}"));
                return false;
            }
        };
        if before.cmds.contains_key(&idb(cmd.id)) {
            continue;
        }
        let proto = if cmd.is_merge() { None } else { Proto::decode(&cmd.data) };
        if let Some(proto) = &proto {
            // round-trip guard: our structural re-encoding is the wire encoding
            if proto.encode().as_deref() != Some(&cmd.data[..]) {
                ctx.m.inconclusive("VmProtocolData does not re-encode to the wire bytes");
                return false;
            }
            for kind in MUTATIONS {
                let Some((mutated, note)) = mutate(rng, kind, cmd, proto, w, &before) else {
                    ctx.m.count(&format!("mutation_skipped_{kind}"), 1);
                    continue;
                };
                ctx.m.eval();
                ctx.m.count(&format!("mut_{kind}"), 1);
                ctx.m.count("mutated_deliveries", 1);
                ctx.m.nontrivial(hash_of(&(kind, &proto.kind, &mutated.data, idb(mutated.id))));
                dst.sink.take();
                let mut trx = dst.cs.transaction(graph);
                let r = catch(|| dst.cs.add_commands(&mut trx, &mut dst.sink, std::slice::from_ref(&mutated), &mut dst.bufs, MemSpill::new));
                let desc = json!({"mutation": kind, "note": note, "command_kind": proto.kind, "from": src.name, "to": dst.name,
                    "original": cmd.json(), "mutated": mutated.json()});
                let mut commit_res = String::new();
                let accepted = match r {
                    Err(p) => {
                        ctx.violation(&format!("rt-auth-panic:{}", p.site()), json!({"case": desc, "panic": p.what}));
                        true
                    }
                    Ok(Ok(n)) => {
                        // Not an error: only tolerable if nothing at all was taken in.
                        if *kind != "id-existing" || n != 0 {
                            ctx.violation(
                                &format!("mutated-command-accepted:{kind}"),
                                json!({"case": desc, "add_commands": format!("Ok({n})")}),
                            );
                            true
                        } else {
                            ctx.m.count("id_existing_ignored_as_duplicate", 1);
                            false
                        }
                    }
                    Ok(Err(e)) => {
                        ctx.m.count("mutated_rejected", 1);
                        ctx.m.seen("rejection_errors", &format!("{kind}: {}", short_err(&e)));
                        false
                    }
                };
                let effects_during_add = dst.sink.take();
                // Half of the time also commit the transaction that saw the rejected command.
                if rng.bool() {
                    match catch(|| dst.cs.commit(trx, &mut dst.sink, &mut dst.bufs, MemSpill::new)) {
                        Ok(Ok(_)) => ctx.m.count("commit_after_reject_ok", 1),
                        Ok(Err(e)) => {
                            commit_res = e.to_string();
                            ctx.m.count("commit_after_reject_err", 1);
                        }
                        Err(p) => ctx.violation(&format!("rt-auth-panic:{}", p.site()), json!({"case": desc, "panic": p.what})),
                    }
                } else {
                    drop(trx);
                }
                let later_effects = dst.sink.take();
                let after = match snapshot(&mut dst.cs, graph) {
                    Ok(s) => s,
                    Err(e) => {
                        ctx.violation("replica-unreadable-after-rejected-command", json!({"case": desc, "error": e}));
                        return false;
                    }
                };
                if !effects_during_add.is_empty() {
                    ctx.violation(
                        &format!("rejected-command-committed-effects:{kind}"),
                        json!({"case": desc, "effects": format!("{effects_during_add:?}")}),
                    );
                }
                if later_effects.iter().any(|e| e.command == mutated.id && !before.cmds.contains_key(&idb(mutated.id))) {
                    ctx.violation(&format!("rejected-command-effects-at-commit:{kind}"), json!({"case": desc}));
                }
                if after != before {
                    let what = if after.cmds != before.cmds {
                        "stored-commands"
                    } else if after.facts != before.facts {
                        "facts"
                    } else {
                        "heads"
                    };
                    ctx.violation(
                        &format!("rejected-command-changed-{what}:{kind}"),
                        json!({"case": desc, "commit": commit_res, "cmds_before": before.cmds.len(), "cmds_after": after.cmds.len()}),
                    );
                    if accepted || after.cmds != before.cmds {
                        // The replica is no longer in a state the rest of the run can reason about.
                        return false;
                    }
                }
            }
        } else if !cmd.is_merge() {
            ctx.m.inconclusive("a non-merge wire command did not decode as VmProtocolData");
            return false;
        }
        // Intact delivery.
        ctx.m.eval();
        dst.sink.take();
        let mut trx = dst.cs.transaction(graph);
        let r = catch(|| dst.cs.add_commands(&mut trx, &mut dst.sink, std::slice::from_ref(cmd), &mut dst.bufs, MemSpill::new));
        let desc = json!({"from": src.name, "to": dst.name, "command": cmd.json(), "kind": proto.as_ref().map(|p| p.kind.clone())});
        match r {
            Err(p) => {
                ctx.violation(&format!("rt-auth-panic:{}", p.site()), json!({"case": desc, "panic": p.what}));
                return false;
            }
            Ok(Err(e)) => {
                ctx.violation("intact-command-rejected", json!({"case": desc, "error": e.to_string()}));
                return false;
            }
            Ok(Ok(n)) => {
                if n != 1 {
                    ctx.violation("intact-command-not-counted", json!({"case": desc, "n": n}));
                }
            }
        }
        let effects = dst.sink.take();
        match catch(|| dst.cs.commit(trx, &mut dst.sink, &mut dst.bufs, MemSpill::new)) {
            Ok(Ok(_)) => {}
            Ok(Err(e)) => {
                ctx.violation("intact-command-commit-failed", json!({"case": desc, "error": e.to_string()}));
                return false;
            }
            Err(p) => {
                ctx.violation(&format!("rt-auth-panic:{}", p.site()), json!({"case": desc, "panic": p.what}));
                return false;
            }
        }
        dst.sink.take();
        if let Some(proto) = &proto {
            ctx.m.count("intact_accepted", 1);
            ctx.m.seen("command_kinds", &proto.kind);
            ctx.m.nontrivial(hash_of(&("intact", &cmd.data)));
            // Effects at the receiver equal the effects at the author for this command.
            let want = src.effects_by_cmd.get(&idb(cmd.id)).cloned().unwrap_or_default();
            if effects != want {
                ctx.violation(
                    "intact-command-effects-differ-from-author",
                    json!({"case": desc, "receiver": format!("{effects:?}"), "author": format!("{want:?}")}),
                );
            } else if !want.is_empty() {
                ctx.m.count("effects_equal_author", 1);
            }
            dst.effects_by_cmd.insert(idb(cmd.id), effects);
            w.honest.push(proto.clone());
        } else {
            ctx.m.count("merge_commands_delivered_intact", 1);
        }
        let after = match snapshot(&mut dst.cs, graph) {
            Ok(s) => s,
            Err(e) => {
                ctx.violation("replica-unreadable-after-intact-command", json!({"case": desc, "error": e}));
                return false;
            }
        };
        if !after.cmds.contains_key(&idb(cmd.id)) || after.cmds.len() != before.cmds.len() + 1 {
            ctx.violation(
                "intact-command-not-stored",
                json!({"case": desc, "cmds_before": before.cmds.len(), "cmds_after": after.cmds.len()}),
            );
            return false;
        }
    }
    true
}

fn short_err(e: &ClientError) -> String {
    let s = e.to_string();
    s.chars().take(60).collect()
}

/// Run an honest action on `dev`; record the effects per command id.
fn honest_action(ctx: &mut Ctx<'_>, w: &World, dev: &mut Device, name: &str, args: Vec<Value>) -> bool {
    dev.sink.take();
    let r = dev.cs.action(w.graph, &mut dev.sink, act(name, args), &mut dev.bufs, MemSpill::new);
    let effects = dev.sink.take();
    ctx.log.push(format!("{} {name} -> {}", dev.name, if r.is_ok() { "ok" } else { "rejected" }));
    match r {
        Ok(()) => {
            for e in effects {
                dev.effects_by_cmd.entry(idb(e.command)).or_default().push(e);
            }
            ctx.m.count("honest_actions_ok", 1);
            true
        }
        Err(_) => {
            ctx.m.count("honest_actions_rejected_by_policy", 1);
            false
        }
    }
}

fn run_world(m: &mut Monitor, machine: &Machine, world_seed: u64, rounds: u64) {
    let mut rng = Rng::new(world_seed);
    let det = DetRng::new(rng.fork(7));
    let (mut a, a_keys) = make_device("A", machine, &det);
    let (mut b, b_keys) = make_device("B", machine, &det);
    // A third registered identity without a replica: material for author swaps.
    let (c_eng, _) = DefaultEngine::<DetRng, CS>::from_entropy(det.clone());
    let mut c_store = MemStore::new();
    let c_keys = make_keys(&c_eng, &mut c_store, &det);

    let mut ctx = Ctx { m, replay: json!({"world_seed": world_seed.to_string(), "rounds": rounds}), log: vec![] };
    a.sink.take();
    let graph = match a.cs.new_graph(&[0u8], act("init", vec![a_keys.public_keys.clone(), Value::Int(world_seed as i64 & 0xffff)]), &mut a.sink) {
        Ok(g) => g,
        Err(e) => {
            ctx.m.inconclusive(&format!("new_graph failed: {e}"));
            return;
        }
    };
    for e in a.sink.take() {
        a.effects_by_cmd.entry(idb(e.command)).or_default().push(e);
    }
    let mut w = World { graph, honest: vec![], registered: vec![a_keys.device_id, b_keys.device_id, c_keys.device_id] };
    debug_assert_eq!(a.id, a_keys.device_id);
    debug_assert_eq!(b.id, b_keys.device_id);
    for k in [&b_keys, &c_keys] {
        if !honest_action(&mut ctx, &w, &mut a, "add_device", vec![k.public_keys.clone()]) {
            ctx.m.inconclusive("add_device failed");
            return;
        }
    }
    ctx.m.count("worlds", 1);
    for round in 0..rounds {
        // Who acts this round: mostly A; sometimes B; sometimes both concurrently (=> merges).
        let mode = rng.weighted(&[6, 2, 2]);
        for (i, dev) in [&mut a, &mut b].into_iter().enumerate() {
            let acts = match (mode, i) {
                (0, 0) | (1, 1) | (2, _) => rng.urange(1, 3),
                _ => 0,
            };
            if i == 1 && round == 0 {
                continue; // B has no graph before the first delivery
            }
            for _ in 0..acts {
                let (name, args) = random_action(&mut rng);
                honest_action(&mut ctx, &w, dev, name, args);
            }
        }
        if mode == 2 && round > 0 {
            ctx.m.count("concurrent_rounds", 1);
        }
        // Exchange both ways through real sync messages.
        for dir in 0..2 {
            let (src, dst) = if dir == 0 { (&mut a, &mut b) } else { (&mut b, &mut a) };
            for _ in 0..8 {
                let cmds = match fetch(graph, dst, src) {
                    Ok(c) => c,
                    Err(e) => {
                        ctx.m.inconclusive(&format!("sync exchange failed: {e}"));
                        return;
                    }
                };
                if cmds.is_empty() {
                    break;
                }
                ctx.m.count("wire_commands_captured", cmds.len() as u64);
                if !deliver(&mut ctx, &mut rng, &mut w, src, dst, &cmds) {
                    return;
                }
                if ctx.m.violations.len() >= ctx.m.max_violations {
                    return;
                }
            }
        }
        // Same command set on both sides => same facts.
        let (sa, sb) = match (snapshot(&mut a.cs, graph), snapshot(&mut b.cs, graph)) {
            (Ok(x), Ok(y)) => (x, y),
            _ => {
                ctx.m.inconclusive("snapshot failed");
                return;
            }
        };
        if sa.cmds == sb.cmds {
            ctx.m.count("replicas_compared_with_equal_command_sets", 1);
            ctx.m.max("max_commands_in_graph", sa.cmds.len() as u64);
            if sa.facts != sb.facts {
                ctx.violation("replicas-with-equal-commands-have-different-facts", json!({"round": round, "heads_a": sa.heads.len(), "heads_b": sb.heads.len()}));
                return;
            }
        } else {
            ctx.violation(
                "replicas-differ-after-intact-exchange",
                json!({"round": round, "a": sa.cmds.len(), "b": sb.cmds.len()}),
            );
            return;
        }
    }
    ctx.m.sample(|| json!({"world_seed": world_seed.to_string(), "rounds": rounds, "history_tail": ctx.log.iter().rev().take(6).collect::<Vec<_>>()}));
}

fn main() {
    let args = Args::parse();
    let mut m = Monitor::new(
        "C35",
        "worlds of two replicas (+ one registered identity without replica) with DefaultEngine, MemStore keystores and a signing policy (open blocks verify against the author's registered key); honest actions of 8 command kinds on both devices (sometimes concurrently => merges), wire commands captured from real sync responses; each non-merge command is delivered in up to 9 single-field mutations (payload bit / payload of another command, kind, parent := other existing command, author, id bit / id of an existing command, signature bit / other valid signature) and then intact. non-trivial = distinct (mutation, kind, mutated wire bytes) and distinct intact commands",
    )
    .min(200)
    .require("mutated_rejected", "mutated deliveries must run")
    .require("intact_accepted", "intact deliveries must run")
    .require("effects_equal_author", "effects of intact commands must be compared with the author's")
    .require("replicas_compared_with_equal_command_sets", "facts of both replicas must be compared")
    .require("merge_commands_delivered_intact", "histories with merge commands must occur")
    .require("mut_parent", "parent mutations must run")
    .require("mut_sig-swap", "signature swaps must run")
    .assume("merge commands carry no signature by design and are delivered intact (outside the statement)")
    .assume("priority and policy wire fields are not among the fields the statement lists and are not mutated");

    let machine = compile_machine();

    if let Some(r) = args.replay_case() {
        let c = &r["case"]["replay"];
        let ws: u64 = c["world_seed"].as_str().and_then(|s| s.parse().ok()).expect("world_seed");
        run_world(&mut m, &machine, ws, c["rounds"].as_u64().unwrap_or(8));
        finish_all(&args, vec![m]);
    }

    let threads = cores();
    let worlds_per_shard = args.n(12, 200);
    let rounds = args.n(16, 30);
    let base = Rng::new(args.seed).fork(35);
    let results = par_shards(threads, |i, _| {
        let mut w = m.worker();
        for k in 0..worlds_per_shard {
            let ws = base.fork((i as u64) << 32 | k).u64();
            run_world(&mut w, &machine, ws, rounds);
            if w.violations.len() >= w.max_violations {
                break;
            }
        }
        w
    });
    m.max_violations = 24;
    absorb_all(&mut m, results, 2);
    finish_all(&args, vec![m]);
}
