//! Shared pieces of the end-to-end monitors (real `VmPolicy` on the real `ClientState`).
pub mod world;
use aranya_runtime::{
    Policy, PolicyError, PolicyId, PolicyStore, Sink, VmEffect, VmPolicy,
};

/// A policy store holding exactly one `VmPolicy`.
pub struct OneStore<CE>(pub VmPolicy<CE>);

impl<CE: aranya_crypto::Engine> PolicyStore for OneStore<CE> {
    type Policy = VmPolicy<CE>;
    type Effect = <VmPolicy<CE> as Policy>::Effect;

    fn add_policy(&mut self, _policy: &[u8]) -> Result<PolicyId, PolicyError> {
        Ok(PolicyId::new(0))
    }

    fn get_policy(&self, _id: PolicyId) -> Result<&Self::Policy, PolicyError> {
        Ok(&self.0)
    }
}

/// Sink that keeps committed effects apart from the ones of the open (uncommitted) span.
#[derive(Default)]
pub struct RecSink {
    pub open: Vec<VmEffect>,
    pub committed: Vec<VmEffect>,
    pub begins: u64,
    pub rollbacks: u64,
    pub commits: u64,
}

impl RecSink {
    pub fn new() -> Self {
        Self::default()
    }
    /// Take the committed effects collected so far.
    pub fn take(&mut self) -> Vec<VmEffect> {
        std::mem::take(&mut self.committed)
    }
}

impl Sink<VmEffect> for RecSink {
    fn begin(&mut self) {
        self.begins += 1;
    }
    fn consume(&mut self, effect: VmEffect) {
        self.open.push(effect);
    }
    fn rollback(&mut self) {
        self.rollbacks += 1;
        self.open.clear();
    }
    fn commit(&mut self) {
        self.commits += 1;
        self.committed.append(&mut self.open);
    }
}

/// Merge worker monitors so that repeated signatures (e.g. a known finding hit by every
/// worker) cannot crowd a different signature out of the bounded violation list: at most
/// `per_sig` violations per signature are kept, distinct signatures first.
pub fn absorb_all(m: &mut vcore::Monitor, workers: Vec<vcore::Monitor>, per_sig: usize) {
    use std::collections::BTreeMap;
    let mut by_sig: BTreeMap<String, Vec<vcore::Violation>> = BTreeMap::new();
    for mut w in workers {
        for v in std::mem::take(&mut w.violations) {
            let e = by_sig.entry(v.signature.clone()).or_default();
            if e.len() < per_sig {
                e.push(v);
            }
        }
        m.absorb(w);
    }
    for round in 0..per_sig {
        for vs in by_sig.values() {
            if let Some(v) = vs.get(round) {
                if m.violations.len() < m.max_violations {
                    m.violations.push(v.clone());
                }
            }
        }
    }
}
