//! Shared plumbing for the runtime monitors: seeded PRNG, argument parsing,
//! three-valued verdicts, evidence fragments, replay files, known-findings
//! matching and panic capture.
//!
//! Every monitor binary:
//!   1. parses `Args` (`--tier`, `--seed`, `--prop`, `--engine`, `--out`, `--replay`),
//!   2. drives workloads and feeds one `Monitor` per property,
//!   3. calls `finish_all`, which writes `<out>/<id>.<engine>.json`, prints
//!      `VIOLATION ...` / `KNOWN-FINDING: ...` lines and exits 0 / 1 / 2.

use std::{
    cell::RefCell,
    collections::{BTreeMap, BTreeSet, HashSet},
    fs,
    hash::{Hash, Hasher},
    panic::{self, AssertUnwindSafe},
    path::{Path, PathBuf},
    sync::Once,
    time::Instant,
};

pub use serde_json::{self, Value, json};

// ---------------------------------------------------------------------------
// PRNG
// ---------------------------------------------------------------------------

/// splitmix64 step, also used as a cheap mixing hash.
pub fn splitmix(x: &mut u64) -> u64 {
    *x = x.wrapping_add(0x9E37_79B9_7F4A_7C15);
    let mut z = *x;
    z = (z ^ (z >> 30)).wrapping_mul(0xBF58_476D_1CE4_E5B9);
    z = (z ^ (z >> 27)).wrapping_mul(0x94D0_49BB_1331_11EB);
    z ^ (z >> 31)
}

pub fn mix2(a: u64, b: u64) -> u64 {
    let mut s = a ^ b.rotate_left(32) ^ 0xA076_1D64_78BD_642F;
    let x = splitmix(&mut s);
    let mut t = x ^ b;
    splitmix(&mut t)
}

/// xoshiro256** seeded from splitmix64; deterministic across platforms.
#[derive(Clone, Debug)]
pub struct Rng {
    s: [u64; 4],
}

impl Rng {
    pub fn new(seed: u64) -> Self {
        let mut x = seed;
        let s = [
            splitmix(&mut x),
            splitmix(&mut x),
            splitmix(&mut x),
            splitmix(&mut x),
        ];
        Self { s }
    }

    /// Independent stream derived from this generator's seed material and a tag.
    pub fn fork(&self, tag: u64) -> Self {
        Self::new(mix2(self.s[0] ^ self.s[2], tag))
    }

    pub fn u64(&mut self) -> u64 {
        let r = self.s[1].wrapping_mul(5).rotate_left(7).wrapping_mul(9);
        let t = self.s[1] << 17;
        self.s[2] ^= self.s[0];
        self.s[3] ^= self.s[1];
        self.s[1] ^= self.s[2];
        self.s[0] ^= self.s[3];
        self.s[2] ^= t;
        self.s[3] = self.s[3].rotate_left(45);
        r
    }

    pub fn u32(&mut self) -> u32 {
        (self.u64() >> 32) as u32
    }

    /// Uniform in `0..n` (n > 0).
    pub fn below(&mut self, n: u64) -> u64 {
        assert!(n > 0);
        // Multiply-shift; bias is negligible for our n.
        ((self.u64() as u128 * n as u128) >> 64) as u64
    }

    pub fn usize(&mut self, n: usize) -> usize {
        self.below(n as u64) as usize
    }

    /// Uniform in `lo..=hi`.
    pub fn range(&mut self, lo: u64, hi: u64) -> u64 {
        assert!(lo <= hi);
        if lo == 0 && hi == u64::MAX {
            return self.u64();
        }
        lo + self.below(hi - lo + 1)
    }

    pub fn urange(&mut self, lo: usize, hi: usize) -> usize {
        self.range(lo as u64, hi as u64) as usize
    }

    pub fn bool(&mut self) -> bool {
        self.u64() & 1 == 1
    }

    /// True with probability num/den.
    pub fn chance(&mut self, num: u64, den: u64) -> bool {
        self.below(den) < num
    }

    pub fn pick<'a, T>(&mut self, xs: &'a [T]) -> &'a T {
        &xs[self.usize(xs.len())]
    }

    pub fn shuffle<T>(&mut self, xs: &mut [T]) {
        for i in (1..xs.len()).rev() {
            let j = self.usize(i + 1);
            xs.swap(i, j);
        }
    }

    pub fn bytes(&mut self, n: usize) -> Vec<u8> {
        let mut v = Vec::with_capacity(n);
        while v.len() < n {
            let x = self.u64().to_le_bytes();
            let take = (n - v.len()).min(8);
            v.extend_from_slice(&x[..take]);
        }
        v
    }

    pub fn fill(&mut self, out: &mut [u8]) {
        let b = self.bytes(out.len());
        out.copy_from_slice(&b);
    }

    /// Weighted choice; returns index.
    pub fn weighted(&mut self, weights: &[u64]) -> usize {
        let total: u64 = weights.iter().sum();
        let mut x = self.below(total.max(1));
        for (i, w) in weights.iter().enumerate() {
            if x < *w {
                return i;
            }
            x -= *w;
        }
        weights.len() - 1
    }
}

pub fn hash_of<T: Hash>(t: &T) -> u64 {
    let mut h = std::collections::hash_map::DefaultHasher::new();
    t.hash(&mut h);
    h.finish()
}

pub fn hex(b: &[u8]) -> String {
    let mut s = String::with_capacity(b.len() * 2);
    for x in b {
        s.push_str(&format!("{x:02x}"));
    }
    s
}

pub fn unhex(s: &str) -> Option<Vec<u8>> {
    if s.len() % 2 != 0 {
        return None;
    }
    (0..s.len() / 2)
        .map(|i| u8::from_str_radix(&s[2 * i..2 * i + 2], 16).ok())
        .collect()
}

// ---------------------------------------------------------------------------
// Arguments
// ---------------------------------------------------------------------------

#[derive(Clone, Copy, Debug, PartialEq, Eq)]
pub enum Tier {
    Quick,
    Thorough,
}

impl Tier {
    pub fn as_str(self) -> &'static str {
        match self {
            Tier::Quick => "quick",
            Tier::Thorough => "thorough",
        }
    }
    /// Pick a size by tier.
    pub fn pick<T>(self, quick: T, thorough: T) -> T {
        match self {
            Tier::Quick => quick,
            Tier::Thorough => thorough,
        }
    }
}

#[derive(Clone, Debug)]
pub struct Args {
    pub tier: Tier,
    pub seed: u64,
    /// Property ids to enforce (empty = all the binary serves).
    pub props: Vec<String>,
    /// Engine label for the fragment file (native-dbg, native-rel, miri, asan, tsan, ...).
    pub engine: String,
    /// Directory for evidence fragments.
    pub out: PathBuf,
    /// Replay file to re-execute instead of the generated workload.
    pub replay: Option<PathBuf>,
    /// Scale factor in percent applied to workload sizes (e.g. under Miri: 1).
    pub scale: u64,
    /// Free-form extra key=value parameters.
    pub extra: BTreeMap<String, String>,
    pub root: PathBuf,
    pub start: Instant,
}

impl Args {
    pub fn parse() -> Self {
        let mut a = Args {
            tier: match std::env::var("VERIF_TIER").as_deref() {
                Ok("thorough") => Tier::Thorough,
                _ => Tier::Quick,
            },
            seed: std::env::var("VERIF_SEED")
                .ok()
                .and_then(|s| s.parse().ok())
                .unwrap_or(1),
            props: vec![],
            engine: "native-dbg".into(),
            out: PathBuf::from("/verif/evidence/.frag"),
            replay: None,
            scale: 100,
            extra: BTreeMap::new(),
            root: PathBuf::from(std::env::var("VERIF_ROOT").unwrap_or_else(|_| "/verif".into())),
            start: Instant::now(),
        };
        let mut it = std::env::args().skip(1);
        while let Some(k) = it.next() {
            let mut val = || it.next().unwrap_or_else(|| panic!("missing value for {k}"));
            match k.as_str() {
                "--tier" => {
                    a.tier = match val().as_str() {
                        "thorough" => Tier::Thorough,
                        _ => Tier::Quick,
                    }
                }
                "--seed" => a.seed = val().parse().expect("seed"),
                "--prop" => a.props.extend(val().split(',').map(str::to_owned)),
                "--engine" => a.engine = val(),
                "--out" => a.out = PathBuf::from(val()),
                "--replay" => a.replay = Some(PathBuf::from(val())),
                "--scale" => a.scale = val().parse().expect("scale"),
                "--set" => {
                    let kv = val();
                    let (k, v) = kv.split_once('=').expect("--set k=v");
                    a.extra.insert(k.into(), v.into());
                }
                other => panic!("unknown argument {other}"),
            }
        }
        a
    }

    pub fn wants(&self, id: &str) -> bool {
        self.props.is_empty() || self.props.iter().any(|p| p == id)
    }

    pub fn get(&self, key: &str) -> Option<&str> {
        self.extra.get(key).map(String::as_str)
    }

    pub fn get_u64(&self, key: &str, default: u64) -> u64 {
        self.get(key).and_then(|v| v.parse().ok()).unwrap_or(default)
    }

    /// Scale a workload size (never below 1).
    pub fn n(&self, quick: u64, thorough: u64) -> u64 {
        (self.tier.pick(quick, thorough) * self.scale / 100).max(1)
    }

    pub fn elapsed_s(&self) -> f64 {
        self.start.elapsed().as_secs_f64()
    }

    /// Load the `case` object of a replay file.
    pub fn replay_case(&self) -> Option<Value> {
        let p = self.replay.as_ref()?;
        let txt = fs::read_to_string(p).unwrap_or_else(|e| panic!("read replay {p:?}: {e}"));
        let v: Value = serde_json::from_str(&txt).expect("replay json");
        Some(v)
    }
}

// ---------------------------------------------------------------------------
// Known findings
// ---------------------------------------------------------------------------

#[derive(Clone, Debug)]
pub struct KnownFinding {
    pub property: String,
    pub signature: String,
    pub status: String,
    pub what: String,
}

pub fn load_known_findings(root: &Path) -> Vec<KnownFinding> {
    let p = root.join("known_findings.jsonl");
    let Ok(txt) = fs::read_to_string(&p) else {
        return vec![];
    };
    txt.lines()
        .filter(|l| !l.trim().is_empty() && !l.trim_start().starts_with('#'))
        .filter_map(|l| serde_json::from_str::<Value>(l).ok())
        .map(|v| KnownFinding {
            property: v["property"].as_str().unwrap_or("").into(),
            signature: v["signature"].as_str().unwrap_or("").into(),
            status: v["status"].as_str().unwrap_or("known").into(),
            what: v["what"].as_str().unwrap_or("").into(),
        })
        .collect()
}

// ---------------------------------------------------------------------------
// Monitors and verdicts
// ---------------------------------------------------------------------------

#[derive(Clone, Debug)]
pub struct Violation {
    /// Stable signature identifying *what* fails (call site / input class), used for
    /// known-findings matching and deduplication.
    pub signature: String,
    /// Everything needed to replay and understand the failure.
    pub detail: Value,
}

#[derive(Clone, Copy, Debug, PartialEq, Eq)]
pub enum Verdict {
    Held,
    Violation,
    Inconclusive,
}

pub struct Monitor {
    pub id: String,
    pub level: String,
    pub rule: String,
    pub evaluations: u64,
    pub distinct: HashSet<u64>,
    pub counters: BTreeMap<String, u64>,
    pub sets: BTreeMap<String, BTreeSet<String>>,
    pub samples: Vec<Value>,
    pub max_samples: usize,
    pub violations: Vec<Violation>,
    pub assumptions: Vec<String>,
    /// Minimum `distinct_nontrivial` for a HELD verdict.
    pub min_nontrivial: u64,
    /// Counters that must be > 0 for a HELD verdict (key, why).
    pub required: Vec<(String, String)>,
    pub inconclusive: Vec<String>,
    pub max_violations: usize,
}

impl Monitor {
    pub fn new(id: &str, rule: &str) -> Self {
        Self {
            id: id.into(),
            level: "exploration".into(),
            rule: rule.into(),
            evaluations: 0,
            distinct: HashSet::new(),
            counters: BTreeMap::new(),
            sets: BTreeMap::new(),
            samples: vec![],
            max_samples: 4,
            violations: vec![],
            assumptions: vec![],
            min_nontrivial: 2,
            required: vec![],
            inconclusive: vec![],
            max_violations: 8,
        }
    }

    pub fn level(mut self, l: &str) -> Self {
        self.level = l.into();
        self
    }

    pub fn min(mut self, n: u64) -> Self {
        self.min_nontrivial = n;
        self
    }

    pub fn require(mut self, counter: &str, why: &str) -> Self {
        self.required.push((counter.into(), why.into()));
        self
    }

    pub fn assume(mut self, a: &str) -> Self {
        self.assumptions.push(a.into());
        self
    }

    pub fn eval(&mut self) {
        self.evaluations += 1;
    }

    pub fn evals(&mut self, n: u64) {
        self.evaluations += n;
    }

    /// Record a case as non-trivial; `h` is a structural hash used for distinctness.
    pub fn nontrivial(&mut self, h: u64) {
        self.distinct.insert(h);
    }

    pub fn count(&mut self, key: &str, n: u64) {
        *self.counters.entry(key.into()).or_insert(0) += n;
    }

    pub fn max(&mut self, key: &str, v: u64) {
        let e = self.counters.entry(key.into()).or_insert(0);
        *e = (*e).max(v);
    }

    /// Record membership in a named coverage set (e.g. instruction kinds seen).
    pub fn seen(&mut self, set: &str, item: &str) {
        self.sets.entry(set.into()).or_default().insert(item.into());
    }

    pub fn sample(&mut self, v: impl FnOnce() -> Value) {
        if self.samples.len() < self.max_samples {
            self.samples.push(v());
        }
    }

    pub fn violation(&mut self, signature: &str, detail: Value) {
        self.count("violations_raw", 1);
        if self.violations.len() < self.max_violations
            && !self
                .violations
                .iter()
                .any(|v| v.signature == signature && self.violations.len() >= 3)
        {
            self.violations.push(Violation {
                signature: signature.into(),
                detail,
            });
        }
    }

    pub fn inconclusive(&mut self, why: &str) {
        self.inconclusive.push(why.into());
    }

    pub fn has_violation(&self) -> bool {
        !self.violations.is_empty()
    }

    /// Merge another monitor (e.g. from a worker thread) into this one.
    pub fn absorb(&mut self, o: Monitor) {
        self.evaluations += o.evaluations;
        self.distinct.extend(o.distinct);
        for (k, v) in o.counters {
            if k.starts_with("max_") {
                self.max(&k, v);
            } else {
                self.count(&k, v);
            }
        }
        for (k, v) in o.sets {
            self.sets.entry(k).or_default().extend(v);
        }
        for s in o.samples {
            if self.samples.len() < self.max_samples {
                self.samples.push(s);
            }
        }
        for v in o.violations {
            if self.violations.len() < self.max_violations {
                self.violations.push(v);
            }
        }
        self.inconclusive.extend(o.inconclusive);
    }

    /// A fresh monitor with the same configuration, for a worker thread.
    pub fn worker(&self) -> Monitor {
        let mut m = Monitor::new(&self.id, &self.rule);
        m.level = self.level.clone();
        m.max_samples = self.max_samples;
        m.max_violations = self.max_violations;
        m
    }
}

/// Write fragments, print verdict lines, and exit with 0 (held), 1 (violation), 2 (inconclusive).
pub fn finish_all(args: &Args, monitors: Vec<Monitor>) -> ! {
    let code = finish_all_code(args, monitors);
    std::process::exit(code)
}

pub fn finish_all_code(args: &Args, monitors: Vec<Monitor>) -> i32 {
    let known = load_known_findings(&args.root);
    let _ = fs::create_dir_all(&args.out);
    let mut worst = Verdict::Held;
    for mut m in monitors {
        if !args.wants(&m.id) {
            continue;
        }
        let mut new_violations = 0usize;
        let mut known_hits: BTreeSet<String> = BTreeSet::new();
        let mut replay_paths = vec![];
        for (i, v) in m.violations.iter().enumerate() {
            if let Some(k) = known.iter().find(|k| {
                k.property == m.id && k.status == "known" && k.signature == v.signature
            }) {
                if known_hits.insert(k.signature.clone()) {
                    println!(
                        "KNOWN-FINDING: property={} signature={} {}",
                        m.id, k.signature, k.what
                    );
                }
                continue;
            }
            new_violations += 1;
            let dir = args.root.join("replays").join(&m.id);
            let _ = fs::create_dir_all(&dir);
            let path = dir.join(format!(
                "{}-{}-s{}-{}.json",
                args.engine,
                args.tier.as_str(),
                args.seed,
                i
            ));
            let body = json!({
                "property": m.id,
                "seed": args.seed,
                "tier": args.tier.as_str(),
                "engine": args.engine,
                "signature": v.signature,
                "case": v.detail,
            });
            let _ = fs::write(&path, serde_json::to_string_pretty(&body).unwrap());
            println!("VIOLATION property={} replay={}", m.id, path.display());
            println!("  signature: {}", v.signature);
            replay_paths.push(path.display().to_string());
        }
        let nontrivial = m.distinct.len() as u64;
        let mut verdict = if new_violations > 0 {
            Verdict::Violation
        } else {
            Verdict::Held
        };
        if verdict == Verdict::Held && args.replay.is_none() {
            if nontrivial < m.min_nontrivial {
                m.inconclusive.push(format!(
                    "only {nontrivial} distinct non-trivial cases (< {})",
                    m.min_nontrivial
                ));
            }
            for (k, why) in &m.required {
                if m.counters.get(k).copied().unwrap_or(0) == 0 {
                    m.inconclusive
                        .push(format!("required coverage counter {k} is 0: {why}"));
                }
            }
            if !m.inconclusive.is_empty() {
                verdict = Verdict::Inconclusive;
            }
        }
        let mut coverage = serde_json::Map::new();
        coverage.insert("evaluations".into(), json!(m.evaluations));
        coverage.insert("distinct_nontrivial".into(), json!(nontrivial));
        coverage.insert("rule".into(), json!(m.rule));
        coverage.insert("samples".into(), Value::Array(m.samples.clone()));
        for (k, v) in &m.counters {
            coverage.insert(k.clone(), json!(v));
        }
        for (k, v) in &m.sets {
            coverage.insert(format!("{k}_count"), json!(v.len()));
            coverage.insert(k.clone(), json!(v.iter().take(200).collect::<Vec<_>>()));
        }
        let frag = json!({
            "property_id": m.id,
            "tier": args.tier.as_str(),
            "seed": args.seed,
            "level": m.level,
            "engine": args.engine,
            "coverage": Value::Object(coverage),
            "assumptions": m.assumptions,
            "wall_s": args.elapsed_s(),
            "violations": new_violations,
            "known_findings_hit": known_hits.iter().collect::<Vec<_>>(),
            "verdict": match verdict { Verdict::Held => "held", Verdict::Violation => "violation", Verdict::Inconclusive => "inconclusive" },
            "inconclusive_reasons": m.inconclusive,
            "replays": replay_paths,
        });
        let path = args.out.join(format!("{}.{}.json", m.id, args.engine));
        fs::write(&path, serde_json::to_string_pretty(&frag).unwrap())
            .unwrap_or_else(|e| panic!("write fragment {path:?}: {e}"));
        match verdict {
            Verdict::Held => println!(
                "HELD property={} engine={} evaluations={} distinct_nontrivial={}",
                m.id, args.engine, m.evaluations, nontrivial
            ),
            Verdict::Violation => {}
            Verdict::Inconclusive => println!(
                "INCONCLUSIVE property={} engine={} reasons={:?}",
                m.id, args.engine, m.inconclusive
            ),
        }
        worst = match (worst, verdict) {
            (Verdict::Violation, _) | (_, Verdict::Violation) => Verdict::Violation,
            (Verdict::Inconclusive, _) | (_, Verdict::Inconclusive) => Verdict::Inconclusive,
            _ => Verdict::Held,
        };
    }
    match worst {
        Verdict::Held => 0,
        Verdict::Violation => 1,
        Verdict::Inconclusive => 2,
    }
}

// ---------------------------------------------------------------------------
// Panic capture
// ---------------------------------------------------------------------------

thread_local! {
    static CAPTURE: RefCell<Option<Vec<String>>> = const { RefCell::new(None) };
}

static HOOK: Once = Once::new();

fn install_hook() {
    HOOK.call_once(|| {
        let prev = panic::take_hook();
        panic::set_hook(Box::new(move |info| {
            let captured = CAPTURE.with(|c| {
                if let Some(v) = c.borrow_mut().as_mut() {
                    let msg = if let Some(s) = info.payload().downcast_ref::<&str>() {
                        (*s).to_string()
                    } else if let Some(s) = info.payload().downcast_ref::<String>() {
                        s.clone()
                    } else {
                        "<non-string panic>".into()
                    };
                    let loc = info
                        .location()
                        .map(|l| format!("{}:{}", l.file(), l.line()))
                        .unwrap_or_else(|| "<unknown>".into());
                    v.push(format!("{msg} @ {loc}"));
                    true
                } else {
                    false
                }
            });
            if !captured {
                prev(info);
            }
        }));
    });
}

#[derive(Clone, Debug)]
pub struct PanicInfo {
    /// "message @ file:line"
    pub what: String,
}

impl PanicInfo {
    /// Signature that is stable across inputs: the source location (repo-relative) if known.
    pub fn site(&self) -> String {
        let loc = self.what.rsplit(" @ ").next().unwrap_or("");
        match loc.find("/crates/") {
            Some(i) => loc[i + 1..].to_string(),
            None => loc.to_string(),
        }
    }
}

/// Run `f`, capturing any panic (message and location) instead of printing it.
pub fn catch<T>(f: impl FnOnce() -> T) -> Result<T, PanicInfo> {
    install_hook();
    let prev = CAPTURE.with(|c| c.borrow_mut().replace(vec![]));
    let r = panic::catch_unwind(AssertUnwindSafe(f));
    let msgs = CAPTURE.with(|c| std::mem::replace(&mut *c.borrow_mut(), prev));
    match r {
        Ok(v) => Ok(v),
        Err(_) => Err(PanicInfo {
            what: msgs
                .and_then(|m| m.into_iter().next())
                .unwrap_or_else(|| "<panic without message>".into()),
        }),
    }
}

// ---------------------------------------------------------------------------
// Parallel helper
// ---------------------------------------------------------------------------

/// Run `work(shard_index, shard_count)` on `threads` OS threads and collect results.
pub fn par_shards<T: Send>(threads: usize, work: impl Fn(usize, usize) -> T + Sync) -> Vec<T> {
    let threads = threads.max(1);
    std::thread::scope(|s| {
        let hs: Vec<_> = (0..threads)
            .map(|i| {
                let w = &work;
                std::thread::Builder::new()
                    .stack_size(64 << 20)
                    .spawn_scoped(s, move || w(i, threads))
                    .expect("spawn")
            })
            .collect();
        hs.into_iter().map(|h| h.join().expect("worker panicked")).collect()
    })
}

pub fn cores() -> usize {
    std::env::var("VERIF_THREADS")
        .ok()
        .and_then(|s| s.parse().ok())
        .unwrap_or_else(|| std::thread::available_parallelism().map(|n| n.get()).unwrap_or(4))
}

/// Per-run scratch directory on tmpfs; removed on drop.
pub struct Scratch(pub PathBuf);

impl Scratch {
    pub fn new(tag: &str) -> Self {
        let base = if Path::new("/dev/shm").is_dir() {
            PathBuf::from("/dev/shm")
        } else {
            std::env::temp_dir()
        };
        static NEXT: std::sync::atomic::AtomicU64 = std::sync::atomic::AtomicU64::new(0);
        let n = NEXT.fetch_add(1, std::sync::atomic::Ordering::Relaxed);
        let p = base.join(format!("verif-{tag}-{}-{n}", std::process::id()));
        let _ = fs::remove_dir_all(&p);
        fs::create_dir_all(&p).expect("scratch dir");
        Scratch(p)
    }
    pub fn path(&self) -> &Path {
        &self.0
    }
}

impl Drop for Scratch {
    fn drop(&mut self) {
        let _ = fs::remove_dir_all(&self.0);
    }
}
