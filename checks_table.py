"""Registry of checks: property -> steps (engine, binary, parameters), claimed level and notes.

MANIFEST.json is generated from this table by `./check --gen-manifest`.
"""

HOOKS = {
    "guard": "verif-hooks",
    "enable": "cargo feature `verif-hooks` on the hooked crates, enabled only by the /verif/harness crates that need it (path dependencies on /repo/crates/*); the repository workspace never enables it",
    "baseline_off_cmd": "cd /repo && (cargo nextest run --workspace --no-fail-fast --tool-config-file pb:/w/lib/nextest.toml --profile pb --test-threads 8 --offline || cargo test --workspace --no-fail-fast --offline)",
    "source_commits": [],
    "add_only": True,
}

ENGINE_NOTES = {
    "native-dbg": "monitor binaries built from /repo (path deps) with opt-level 1, debug-assertions and overflow-checks on",
    "native-rel": "same monitors in release profile (debug_assert off, wrapping arithmetic) - profile flips panic verdicts",
    "miri": "cargo +nightly miri run on the monitor binary: UB, aliasing, leaks, data races, deadlocks; many-seeds scheduler",
    "asan": "nightly -Zsanitizer=address build of the monitor binary (release + debug-assertions)",
    "tsan": "nightly -Zsanitizer=thread -Zbuild-std build of the monitor binary",
}

NOT_APPLICABLE = {}


def native(pkg, bin_, **kw):
    return [dict(engine="native-dbg", pkg=pkg, bin=bin_, **kw), dict(engine="native-rel", pkg=pkg, bin=bin_, **kw)]


def one(engine, pkg, bin_, **kw):
    return [dict(engine=engine, pkg=pkg, bin=bin_, **kw)]


CHECKS = {}


def reg(pid, steps, technique, text, note, level="exploration", design_ref=None):
    CHECKS[pid] = dict(steps=steps, technique=technique, text=text, note=note, level=level,
                       design_ref=design_ref or f"DESIGN.md section for {pid}")


def _load_tables():
    import glob, os
    here = os.path.dirname(os.path.abspath(__file__))
    for path in sorted(glob.glob(os.path.join(here, "tables", "*.py"))):
        src = open(path).read()
        exec(compile(src, path, "exec"), {"reg": reg, "native": native, "one": one, "NOT_APPLICABLE": NOT_APPLICABLE, "HOOKS": HOOKS})


reg(
    "C46",
    native("mon-misc", "ids"),
    "round-trip + differential oracle (independent base58 reference decoder) over generated ids and texts",
    "Every generated 32-byte value (structured boundary shapes + random) is pushed through Display/FromStr, serde_json, "
    "postcard and rkyv and compared with itself and with an independent big-integer base58 decoder; random and "
    "near-valid texts are parsed and any Ok result must equal what the reference decoder says the text encodes. "
    "Sampling, not enumeration: 2x10^5 ids + 3x10^5 texts per quick run.",
    "Trusts the 30-line reference decoder in the monitor; does not cover serde formats other than JSON/postcard/rkyv.",
    design_ref="DESIGN.md 6 (C46)",
)

reg(
    "C47",
    native("mon-misc", "cstr")
    + one("miri", "mon-misc", "cstr", scale=1, timeout=1500)
    + one("asan", "mon-misc", "cstr", tiers=("thorough",)),
    "guard-byte invariant + exact-size allocations under Miri/ASan, every capacity 0..len+8",
    "For generated multi-fragment Display values every buffer capacity from 0 to len+8 is tried, once carved out of a "
    "poisoned allocation (guard bytes checked) and once as an exact-size allocation so Miri (always) and ASan (thorough) "
    "flag any out-of-bounds write; contents, terminator, reported length and the needed size on failure are compared "
    "with the text.",
    "Exhaustive over capacities per text, sampled over texts; success length is len+1 as pinned by the repo's own test.",
    design_ref="DESIGN.md 6 (C47)",
)

_load_tables()
